----------------------------- MODULE Intervals -----------------------------
(***************************************************************************)
(* C19: one-dimensional intervals on the circle (s1.Interval) and on the   *)
(* line (r1.Interval), planar rectangles (r2.Rect), latitude-longitude     *)
(* rectangles (s2.Rect) and spherical caps (s2.Cap) as POINT SETS over a   *)
(* finite probe grid.                                                      *)
(*                                                                         *)
(* Circle: Z_2M, grid positions k in -M..M with -M identified with M       *)
(* (Go: k*pi/M, so that +-M is exactly +-math.Pi).  Probes live on the     *)
(* half-step grid: "doubled" coordinates q in (-2M, 2M], Go: q*pi/(2M);    *)
(* the grid point k is the probe 2k.  The circle is partitioned into 2M    *)
(* grid points and 2M open arcs between them; every set occurring here is  *)
(* a union of such atoms and there is exactly one probe per atom, so set   *)
(* relations between probe sets are the relations between the real sets.   *)
(*                                                                         *)
(* Line: inputs have even integer coordinates, probes are all integers of  *)
(* a slightly larger range (odd = strictly between two grid points).       *)
(***************************************************************************)
EXTENDS Integers, Sequences, FiniteSets, TLC

CONSTANT M      \* circle: 2M grid positions; power of two
CONSTANT NL     \* line: grid positions are the even integers of -2NL..2NL
CONSTANT ML     \* latitude: grid positions even integers of -2ML..2ML, 2ML = pi/2

ASSUME M \in {2, 4, 8, 16} /\ NL \in 1..8 /\ ML \in {1, 2, 4, 8}

Min2(a, b) == IF a < b THEN a ELSE b
Max2(a, b) == IF a > b THEN a ELSE b
SetMin(S) == CHOOSE x \in S : \A y \in S : x <= y
SetMax(S) == CHOOSE x \in S : \A y \in S : x >= y
AbsI(x) == IF x < 0 THEN -x ELSE x

(***************************************************************************)
(*                          s1.Interval                                    *)
(***************************************************************************)
Pos == -M..M
Q == (-2*M + 1)..(2*M)                      \* probes, doubled coordinates
NormP(k) == IF k = -M THEN M ELSE k
WrapP(k) == LET r == ((k + 5*M) % (2*M)) - M IN IF r = -M THEN M ELSE r      \* k >= -4M
\* The wrap point has two float representations: probe 2M is +pi and -2M is -pi.  They are
\* the same model point; every operation taking a point must accept both and agree.
NormQ(q) == IF q = -2*M THEN 2*M ELSE q
QReps(q) == IF q = 2*M THEN {2*M, -2*M} ELSE {q}
WrapQ(q) == LET r == ((q + 10*M) % (4*M)) - 2*M IN IF r = -2*M THEN 2*M ELSE r

SEmpty == <<M, -M>>
SFull == <<-M, M>>
SValid(I) == /\ I[1] \in Pos /\ I[2] \in Pos
             /\ ~(I[1] = -M /\ I[2] # M)
             /\ ~(I[2] = -M /\ I[1] # M)
SIntervals == {I \in Pos \X Pos : SValid(I)}
SInverted(I) == I[1] > I[2]

SSetDef(I) ==
    IF I = SEmpty THEN {}
    ELSE IF I = SFull THEN Q
    ELSE IF I[1] <= I[2] THEN {q \in Q : 2*I[1] <= q /\ q <= 2*I[2]}
    ELSE {q \in Q : q >= 2*I[1] \/ q <= 2*I[2]}
SIntDef(I) ==
    IF I = SEmpty THEN {}
    ELSE IF I = SFull THEN Q
    ELSE IF I[1] <= I[2] THEN {q \in Q : 2*I[1] < q /\ q < 2*I[2]}
    ELSE {q \in Q : q > 2*I[1] \/ q < 2*I[2]}
SLen(I) == IF I = SEmpty THEN -1 ELSE IF I[2] >= I[1] THEN I[2] - I[1] ELSE I[2] - I[1] + 2*M

\* tables (constant level: evaluated once)
SSetF == [I \in SIntervals |-> SSetDef(I)]
SIntF == [I \in SIntervals |-> SIntDef(I)]
SSet(I) == SSetF[I]
SInt(I) == SIntF[I]

\* the valid intervals of minimal length that contain the probe set S ("smallest interval
\* containing ..."); more than one element = an exact tie, either is acceptable
SMinCover(S) ==
    IF S = {} THEN {SEmpty}
    ELSE LET C == {R \in SIntervals : S \subseteq SSetF[R]}
             m == SetMin({SLen(R) : R \in C})
         IN  {R \in C : SLen(R) = m}

SContains(I, q) == q \in SSet(I)
SInteriorContains(I, q) == q \in SInt(I)
SContainsInterval(I, J) == SSet(J) \subseteq SSet(I)
SInteriorContainsInterval(I, J) == SSet(J) \subseteq SInt(I)
SIntersects(I, J) == SSet(I) \cap SSet(J) # {}
SInteriorIntersects(I, J) == SInt(I) \cap SSet(J) # {}
SUnion(I, J) == SMinCover(SSet(I) \cup SSet(J))
SIntersection(I, J) == SMinCover(SSet(I) \cap SSet(J))
SAddPoint(I, q) == SMinCover(SSet(I) \cup {q})
\* complement of the interior (closed)
SComplement(I) == IF I[1] = I[2] THEN SFull ELSE IF I = SFull THEN SEmpty ELSE IF I = SEmpty THEN SFull ELSE <<I[2], I[1]>>
CircDist(a, b) == Min2((a - b + 8*M) % (4*M), (b - a + 8*M) % (4*M))
\* closest points of a non-empty interval to probe q (two = exact tie)
SProject(I, q) ==
    LET S == SSet(I)
        d == SetMin({CircDist(q, x) : x \in S})
    IN  {x \in S : CircDist(q, x) = d}
\* expansion by m grid steps on each side (m may be negative)
SExpanded(I, m) ==
    IF m >= 0 THEN
        IF I = SEmpty THEN [res |-> {SEmpty}, tie |-> FALSE]
        ELSE IF SLen(I) + 2*m > 2*M \/ I = SFull THEN [res |-> {SFull}, tie |-> FALSE]
        ELSE IF SLen(I) + 2*m = 2*M THEN [res |-> {SFull}, tie |-> TRUE]
        ELSE [res |-> {<<WrapP(I[1] - m), WrapP(I[2] + m)>>}, tie |-> FALSE]
    ELSE
        IF I = SFull THEN [res |-> {SFull}, tie |-> FALSE]
        ELSE IF SLen(I) + 2*m < 0 THEN [res |-> {SEmpty}, tie |-> FALSE]
        ELSE IF SLen(I) + 2*m = 0 THEN [res |-> {SEmpty, <<WrapP(I[1] - m), WrapP(I[1] - m)>>}, tie |-> TRUE]
        ELSE [res |-> {<<WrapP(I[1] - m), WrapP(I[2] + m)>>}, tie |-> FALSE]
SFromPointPair(a, b) == SMinCover({2*NormP(a), 2*NormP(b)})
SFromEndpoints(lo, hi) ==
    IF lo = -M /\ hi = M THEN SFull
    ELSE IF lo = M /\ hi = -M THEN SEmpty
    ELSE <<NormP(lo), NormP(hi)>>
\* midpoint as a probe (non-empty, non-full)
SCenter(I) == IF I[1] <= I[2] THEN I[1] + I[2] ELSE WrapQ(I[1] + I[2] + 2*M)

\* midpoint of the complement (non-empty, non-full); antipode of a singleton
SComplementCenter(I) == IF I[1] = I[2] THEN WrapQ(2*I[1] + 2*M) ELSE SCenter(SComplement(I))
\* directed Hausdorff distance in half-steps: max over p in I of the distance from p to J.
\* The maximum is attained at an endpoint of I or at the complement centre of J: all probes.
SHausdorff(I, J) ==
    IF SSet(I) = {} THEN 0
    ELSE IF SSet(J) = {} THEN 2*M
    ELSE SetMax({SetMin({CircDist(p, q) : q \in SSet(J)}) : p \in SSet(I)})

(***************************************************************************)
(*                          r1.Interval                                    *)
(* <<lo, hi>>, lo > hi = empty (many representations).                     *)
(***************************************************************************)
LGrid == {2*k : k \in -NL..NL}
LQ == (-2*NL - 3)..(2*NL + 3)
RIntervals == LGrid \X LGrid
REmpty(I) == I[1] > I[2]
RSet(I) == {q \in LQ : I[1] <= q /\ q <= I[2]}
RInt(I) == {q \in LQ : I[1] < q /\ q < I[2]}
RCanonEmpty == <<2, 0>>
RContainsInterval(I, J) == RSet(J) \subseteq RSet(I)
RInteriorContainsInterval(I, J) == RSet(J) \subseteq RInt(I)
RIntersects(I, J) == RSet(I) \cap RSet(J) # {}
RInteriorIntersects(I, J) == RInt(I) \cap RSet(J) # {}
RHull(S) == IF S = {} THEN RCanonEmpty ELSE <<SetMin(S), SetMax(S)>>
RUnion(I, J) == RHull(RSet(I) \cup RSet(J))
RIntersection(I, J) == RHull(RSet(I) \cap RSet(J))
RAddPoint(I, q) == RHull(RSet(I) \cup {q})
RClamp(I, q) == IF q < I[1] THEN I[1] ELSE IF q > I[2] THEN I[2] ELSE q      \* I non-empty
RExpanded(I, m) == IF REmpty(I) THEN RCanonEmpty
                   ELSE IF I[1] - m > I[2] + m THEN RCanonEmpty ELSE <<I[1] - m, I[2] + m>>
REqual(I, J) == RSet(I) = RSet(J)
\* directed Hausdorff distance; -1 stands for +infinity
RHausdorff(I, J) ==
    IF RSet(I) = {} THEN 0
    ELSE IF RSet(J) = {} THEN -1
    ELSE SetMax({SetMin({AbsI(p - q) : q \in RSet(J)}) : p \in RSet(I)})
\* general r1 hull for arbitrary (not LQ-bounded) integer endpoints
RSameSet(I, J) == (REmpty(I) /\ REmpty(J)) \/ I = J

(***************************************************************************)
(*                             r2.Rect                                     *)
(* <<X, Y>>, two r1 intervals; valid iff both or none empty.               *)
(***************************************************************************)
R2Valid(R) == REmpty(R[1]) = REmpty(R[2])
R2Empty(R) == REmpty(R[1])
R2Canon == <<RCanonEmpty, RCanonEmpty>>
R2Set(R) == RSet(R[1]) \X RSet(R[2])
R2Int(R) == RInt(R[1]) \X RInt(R[2])
R2Contains(R, S) == R2Set(S) \subseteq R2Set(R)
R2InteriorContains(R, S) == R2Set(S) \subseteq R2Int(R)
R2Intersects(R, S) == R2Set(R) \cap R2Set(S) # {}
R2InteriorIntersects(R, S) == R2Int(R) \cap R2Set(S) # {}
R2Norm(R) == IF REmpty(R[1]) \/ REmpty(R[2]) THEN R2Canon ELSE R
R2Union(R, S) == <<RUnion(R[1], S[1]), RUnion(R[2], S[2])>>
R2Intersection(R, S) == R2Norm(<<RIntersection(R[1], S[1]), RIntersection(R[2], S[2])>>)
R2AddPoint(R, p) == <<RAddPoint(R[1], p[1]), RAddPoint(R[2], p[2])>>
R2Clamp(R, p) == <<RClamp(R[1], p[1]), RClamp(R[2], p[2])>>
R2Expanded(R, m) == R2Norm(<<RExpanded(R[1], m[1]), RExpanded(R[2], m[2])>>)

(***************************************************************************)
(*                             s2.Rect                                     *)
(* <<lat, lng>>: lat an r1 interval on the even integers of -2ML..2ML      *)
(* (Go: q*pi/(4ML), +-2ML = +-pi/2 exactly), lng an s1 interval.           *)
(* Probes <<ql, qg>>: ql in -2ML-1..2ML+1 (the two outer values are        *)
(* invalid latitudes), qg in Q.                                            *)
(***************************************************************************)
LatGrid == {2*k : k \in -ML..ML}
LatQ == (-2*ML)..(2*ML)
LatIntervals == {I \in LatGrid \X LatGrid : I[1] <= I[2]}
LatSet(I) == {q \in LatQ : I[1] <= q /\ q <= I[2]}
LatEmpty == <<2, 0>>
LatHull(S) == IF S = {} THEN LatEmpty ELSE <<SetMin(S), SetMax(S)>>
RcEmpty == <<LatEmpty, SEmpty>>
RcFull == <<<<-2*ML, 2*ML>>, SFull>>
RcIsEmpty(R) == R[1][1] > R[1][2]
RcSet(R) == LatSet(R[1]) \X SSet(R[2])
RcNorm(lat, lng) == IF lat[1] > lat[2] \/ lng = SEmpty THEN RcEmpty ELSE <<lat, lng>>
\* sets of acceptable results (the longitude part may tie)
RcUnion(R, S) == {<<LatHull(LatSet(R[1]) \cup LatSet(S[1])), g>> : g \in SUnion(R[2], S[2])}
RcIntersection(R, S) ==
    {RcNorm(LatHull(LatSet(R[1]) \cap LatSet(S[1])), g) : g \in SIntersection(R[2], S[2])}
RcContains(R, S) == RcSet(S) \subseteq RcSet(R)
RcIntersects(R, S) == RcSet(R) \cap RcSet(S) # {}
RcPolarClosure(R) ==
    IF ~RcIsEmpty(R) /\ (R[1][1] = -2*ML \/ R[1][2] = 2*ML) THEN <<R[1], SFull>> ELSE R
RcAddPoint(R, p) == {<<LatHull(LatSet(R[1]) \cup {p[1]}), g>> : g \in SAddPoint(R[2], p[2])}
\* RectFromLatLng: the one-point rectangle (longitude on the grid: p[2] even)
RcFromLatLng(p) == <<<<p[1], p[1]>>, <<NormP(NormQ(p[2]) \div 2), NormP(NormQ(p[2]) \div 2)>>>>
\* margins: ml in latitude grid steps (2 units), mg in circle grid steps
RcExpanded(R, ml, mg) ==
    LET lat == IF RcIsEmpty(R) THEN LatEmpty
               ELSE IF R[1][1] - 2*ml > R[1][2] + 2*ml THEN LatEmpty
               ELSE <<Max2(R[1][1] - 2*ml, -2*ML), Min2(R[1][2] + 2*ml, 2*ML)>>
        e == SExpanded(R[2], mg)
    IN  [res |-> {RcNorm(lat, g) : g \in e.res}, tie |-> e.tie]

(***************************************************************************)
(*                              s2.Cap                                     *)
(* centre: a lattice direction c in {-1,0,1}^3 \ {0} (Go: c/|c|), radius:  *)
(* squared chord length e/8, e in 0..32; e = -8 is the empty cap           *)
(* (NegativeChordAngle = -1), e = 32 the full cap.                         *)
(* chord^2(c, p) = 2 - 2 c.p/sqrt(|c|^2 |p|^2).                            *)
(***************************************************************************)
Dirs == {<<x, y, z>> : x \in -1..1, y \in -1..1, z \in -1..1} \ {<<0, 0, 0>>}
VDot(a, b) == a[1]*b[1] + a[2]*b[2] + a[3]*b[3]
VNeg(a) == <<-a[1], -a[2], -a[3]>>
VAxis(a) == VDot(a, a) = 1
SgnI(x) == IF x > 0 THEN 1 ELSE IF x < 0 THEN -1 ELSE 0
\* sign of chord^2(c,p) - e/8  =  sign of (16-e)*sqrt(S) - 16*dot,  S = |c|^2|p|^2
CapCmp(c, e, p) ==
    LET L == 16 - e
        R == 16 * VDot(c, p)
        S == VDot(c, c) * VDot(p, p)
    IN  IF L >= 0 /\ R < 0 THEN 1
        ELSE IF L < 0 /\ R >= 0 THEN -1
        ELSE IF L >= 0 THEN SgnI(L*L*S - R*R)
        ELSE SgnI(R*R - L*L*S)
\* the float64 computation of chord^2(c,p) is exact
CapExactPt(c, p) == (VAxis(c) /\ VAxis(p)) \/ c = p
\* "T"/"F" robust under the unit embedding, "U" = exact tie that floating point may break
CapContainsPt(c, e, p) ==
    IF e = 32 THEN "T"                     \* chord^2 is clamped to 4 by the code
    ELSE
    LET s == CapCmp(c, e, p)
    IN  IF s < 0 THEN "T" ELSE IF s > 0 THEN "F" ELSE IF CapExactPt(c, p) THEN "T" ELSE "U"
CapInteriorContainsPt(c, e, p) ==
    IF e = 32 THEN "T"
    ELSE LET s == CapCmp(c, e, p)
         IN  IF s < 0 THEN "T" ELSE IF s > 0 THEN "F" ELSE IF CapExactPt(c, p) THEN "F" ELSE "U"
\* angles in units of pi/12 where they are rational multiples of pi; -1 = not representable
Ang12(e) == CASE e = 0 -> 0 [] e = 8 -> 4 [] e = 16 -> 6 [] e = 24 -> 8 [] e = 32 -> 12 [] OTHER -> -1
DistAng12(c, o) ==
    LET d == VDot(c, o)
        S == VDot(c, c) * VDot(o, o)
    IN  IF d = 0 THEN 6
        ELSE IF d*d = S THEN (IF d > 0 THEN 0 ELSE 12)
        ELSE IF 2*d*d = S THEN (IF d > 0 THEN 3 ELSE 9)
        ELSE IF 4*d*d = S THEN (IF d > 0 THEN 4 ELSE 8)
        ELSE IF 4*d*d = 3*S THEN (IF d > 0 THEN 2 ELSE 10)
        ELSE -1
\* the float64 chord^2 between the two centres is exact
CapExactCC(c, o) == CapExactPt(c, o)
Tri(s, exact) == IF s > 0 THEN "T" ELSE IF s < 0 THEN "F" ELSE IF exact THEN "T" ELSE "U"
\* does cap (c,ec) contain cap (o,eo)?
CapContainsCap(c, ec, o, eo) ==
    IF ec = 32 \/ eo = -8 THEN "T"
    ELSE IF ec = -8 THEN "F"
    ELSE IF c = o THEN (IF ec >= eo THEN "T" ELSE "F")
    ELSE IF eo = 0 THEN CapContainsPt(c, ec, o)
    ELSE IF Ang12(ec) >= 0 /\ Ang12(eo) >= 0 /\ DistAng12(c, o) >= 0 THEN
        LET need == DistAng12(c, o) + Ang12(eo)
        IN  IF need >= 12 THEN "F" ELSE Tri(Ang12(ec) - need, FALSE)
    ELSE "U"
CapIntersects(c, ec, o, eo) ==
    IF ec = -8 \/ eo = -8 THEN "F"
    ELSE IF c = o THEN "T"
    ELSE IF eo = 0 THEN CapContainsPt(c, ec, o)
    ELSE IF ec = 0 THEN CapContainsPt(o, eo, c)
    ELSE IF ec + eo >= 32 THEN "T"          \* radii sum to >= pi: the code clamps exactly
    ELSE IF Ang12(ec) >= 0 /\ Ang12(eo) >= 0 /\ DistAng12(c, o) >= 0 THEN
        Tri(Ang12(ec) + Ang12(eo) - DistAng12(c, o), FALSE)
    ELSE "U"
\* antipodal centres and radii summing to more than pi (or a full receiver): the interior of
\* the first cap meets the second, but the code's chord-angle sum is clamped at pi and is
\* compared (strictly) with a centre distance of exactly pi
CapClampCase(c, ec, o, eo) == c = VNeg(o) /\ ec > 0 /\ eo >= 0 /\ (ec + eo > 32 \/ ec = 32)
CapInteriorIntersects(c, ec, o, eo) ==
    IF ec <= 0 \/ eo = -8 THEN "F"
    ELSE IF c = o THEN "T"
    ELSE IF ec = 32 THEN (IF c = VNeg(o) /\ ~VAxis(c) THEN "U" ELSE "T")   \* the interior of the full cap is everything
    ELSE IF DistAng12(c, o) = 12 /\ ec + eo >= 32 THEN
        (IF ec + eo > 32 THEN (IF VAxis(c) THEN "T" ELSE "U")     \* float distance may fall below 4 off-axis
         ELSE IF VAxis(c) THEN "F" ELSE "U")                      \* radii sum to exactly pi: they only touch
    ELSE IF eo = 0 THEN CapInteriorContainsPt(c, ec, o)
    ELSE IF ec + eo >= 32 THEN "T"
    ELSE IF Ang12(ec) >= 0 /\ Ang12(eo) >= 0 /\ DistAng12(c, o) >= 0 THEN
        LET s == Ang12(ec) + Ang12(eo) - DistAng12(c, o)
        IN  IF s > 0 THEN "T" ELSE IF s < 0 THEN "F" ELSE "U"
    ELSE "U"
\* complement of the interior: centre, radius
CapComplement(c, e) == IF e = 32 THEN [c |-> <<1, 0, 0>>, e |-> -8, any |-> TRUE]
                       ELSE IF e = -8 THEN [c |-> <<1, 0, 0>>, e |-> 32, any |-> TRUE]
                       ELSE [c |-> VNeg(c), e |-> 32 - e, any |-> e = 0]

\* radius after Expanded by dl (units of pi/12); -1 = not representable in eighths
EOfAng(a) == CASE a = 0 -> 0 [] a = 4 -> 8 [] a = 6 -> 16 [] a = 8 -> 24 [] a = 12 -> 32 [] OTHER -> -1
CapExpandedE(e, dl) ==
    IF e = -8 THEN -8
    ELSE IF dl = 0 THEN e
    ELSE IF Ang12(e) >= 0 THEN EOfAng(Min2(12, Ang12(e) + dl))
    ELSE -1
\* radius angle (units of pi/24) of the smallest cap enclosing both, when neither contains the other
CapUnionAng24(c, ec, o, eo) ==
    IF Ang12(ec) >= 0 /\ Ang12(eo) >= 0 /\ DistAng12(c, o) >= 0
    THEN Min2(24, Ang12(ec) + Ang12(eo) + DistAng12(c, o)) ELSE -1
\* radius angle (units of pi/12) of c after AddCap(o) (both non-empty)
CapAddCapAng12(c, ec, o, eo) ==
    IF Ang12(ec) >= 0 /\ Ang12(eo) >= 0 /\ DistAng12(c, o) >= 0
    THEN Max2(Ang12(ec), Min2(12, DistAng12(c, o) + Ang12(eo))) ELSE -1

(***************************************************************************)
(*                           s1.ChordAngle                                 *)
(* squared chord lengths a/8, b/8, a, b in 0..32.  k = "eq": the float64   *)
(* result is exactly e/8; "approx": e/8 up to rounding; "open": strictly   *)
(* between the stated bounds.                                              *)
(***************************************************************************)
ChordAdd(a, b) ==
    IF b = 0 THEN [k |-> "eq", e |-> a]
    ELSE IF a = 0 THEN [k |-> "eq", e |-> b]
    ELSE IF a + b >= 32 THEN [k |-> "eq", e |-> 32]
    ELSE IF Ang12(a) >= 0 /\ Ang12(b) >= 0 /\ EOfAng(Ang12(a) + Ang12(b)) >= 0
         THEN [k |-> "approx", e |-> EOfAng(Ang12(a) + Ang12(b))]
    ELSE [k |-> "open", e |-> Max2(a, b)]            \* strictly between max(a,b)/8 and 4
\* supplementary squared chord: Angle(a) + Angle(32 - a) = pi exactly (sin^2 + cos^2 = 1)
ChordSupp(a) == 32 - a
ChordSub(a, b) ==
    IF b = 0 THEN [k |-> "eq", e |-> a]
    ELSE IF a <= b THEN [k |-> "eq", e |-> 0]
    ELSE IF Ang12(a) >= 0 /\ Ang12(b) >= 0 /\ EOfAng(Ang12(a) - Ang12(b)) >= 0
         THEN [k |-> "approx", e |-> EOfAng(Ang12(a) - Ang12(b))]
    ELSE [k |-> "open", e |-> a]                     \* strictly between 0 and a/8
=============================================================================
