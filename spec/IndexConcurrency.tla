-------------------------- MODULE IndexConcurrency --------------------------
(***************************************************************************)
(* C14: the protocol of ShapeIndex.maybeApplyUpdates (IndexConcurrencyCore) *)
(* together with the Finish action that prints each complete schedule as   *)
(* JSON for replay against real goroutines, and weak fairness per process. *)
(* Safety for every number of goroutines is proved in                      *)
(* IndexConcurrencyProof.tla; TLC checks the bounded instances and         *)
(* termination.                                                            *)
(***************************************************************************)
EXTENDS IndexConcurrencyCore, TLC, Json

Finish ==
    /\ AllDone /\ KeepHist
    /\ PrintT(<<"HIST", ToJson([op |-> "c14.schedule", np |-> NP, fresh |-> InitFresh, steps |-> h])>>)
    /\ UNCHANGED vars

Next == (\E p \in Procs : Step(p)) \/ Finish

Spec == Init /\ [][Next]_vars /\ \A p \in Procs : WF_vars(Step(p))

\* ---- liveness ----------------------------------------------------------------
Termination == <>AllDone
=============================================================================
