----------------------------- MODULE IdAlgebra ------------------------------
(***************************************************************************)
(* Extension of C01, checked with Apalache (unbounded integers, SMT): the  *)
(* 64-bit id algebra of s2/cellid.go.                                      *)
(*                                                                         *)
(* An id is an integer in [0, 2^64).  The id of the cell of level l with   *)
(* face f and position p (0 <= p < 4^l) along the curve is                 *)
(*        f * 2^61 + p * (2 * lsb) + lsb,     lsb = 4^(30 - l),            *)
(* i.e. an odd multiple of lsb = LsbForLevel[l] below 6 * 2^61.            *)
(* Bit operations are written arithmetically, for a power of two p:        *)
(*   x & -p = x - x % p,   x & p # 0 iff (x \div p) % 2 = 1,               *)
(*   x | p  = x + p if that bit is clear;                                  *)
(*   x & -x (lsb) = the largest power of two dividing x, which for a valid *)
(*   id of level l is LsbForLevel[l] (obligation LsbLaw: it divides x, the *)
(*   quotient is odd, and no other level has this property).               *)
(* The state is one arbitrary valid id with its level, a child index, an   *)
(* ancestor level and a second arbitrary valid id; the obligations are     *)
(* invariants of that state (length 0 from IndInit) and the preservation   *)
(* of validity by the moves child / parent / next / previous (length 1).   *)
(* Since every valid id is reached from a face cell by child moves, this   *)
(* is a proof for all 6 * (4^31 - 1) / 3 cell ids.                         *)
(*                                                                         *)
(*                                                                         *)
(* SMT friendliness: x % lsb is linear only if lsb is a literal (runs with *)
(* a symbolic level - a table lookup or a 31-way case split - stall in Z3  *)
(* on most laws), so the levels are the constants Lev (level of id) and    *)
(* OLev (level of oid; also the ancestor level when OLev <= Lev and the    *)
(* descendant level when OLev >= Lev), instantiated by the cfg file of     *)
(* each run; 4^(30 - Lev) is folded to a literal by Apalache.  The id, the *)
(* child index and oid stay arbitrary (unbounded SMT integers).            *)
(*   base:  apalache-mc check --config=<0,0>  --init=Init    --inv=IndInv --length=0 *)
(*   step + one-level laws, for each Lev:                                  *)
(*          apalache-mc check --config=<Lev,Lev> --init=IndInit --inv=IndInv,OneLevelLaws --length=1 *)
(*   two-level laws, for each pair:                                        *)
(*          apalache-mc check --config=<Lev,OLev> --init=IndInit --inv=TwoLevelLaws --length=0 *)
(***************************************************************************)
EXTENDS Integers

CONSTANTS
    \* @type: Int;
    Lev,
    \* @type: Int;
    OLev

VARIABLES
    \* @type: Int;
    id,
    \* @type: Int;
    lev,
    \* @type: Int;
    k,
    \* @type: Int;
    oid,
    \* TRUE after a move (the laws are stated for the arbitrary initial state)
    \* @type: Bool;
    moved

MaxLevel == 30
NumFaces == 6
P61 == 2^61
P64 == 2^64
\* lsbForLevel(level) = 1 << 2*(MaxLevel-level), for the literal levels of this run
LSB == 4^(30 - Lev)
OLSB == 4^(30 - OLev)
ChildLSB == IF Lev < 30 THEN LSB \div 4 ELSE 1            \* lsb of level Lev + 1 (unused at level 30)
ParentLSB == IF Lev > 0 THEN 4 * LSB ELSE LSB            \* lsb of level Lev - 1 (unused at level 0)

ClearBelow(x, p) == x - (x % p)                          \* x & -p
BitSet(x, p) == (x \div p) % 2 = 1                       \* x & p # 0
OrBit(x, p) == IF BitSet(x, p) THEN x ELSE x + p         \* x | p

\* ---- validity: Face() < 6 and the lowest set bit is at an even position (lsb & 0x1555..5 # 0);
\* a valid id of the level with lsb L is an odd multiple of L below 6 * 2^61
Valid(x, L) == x >= 0 /\ x \div P61 < NumFaces /\ x % (2 * L) = L

\* ---- s2/cellid.go, with L = lsb() of the receiver and PL = lsbForLevel(level argument)
Face(x) == x \div P61
Pos(x) == x % P61
CellIDFromFace(f) == f * P61 + 4^30
RangeMin(x, L) == x - (L - 1)
RangeMax(x, L) == x + (L - 1)
Parent(x, PL) == OrBit(ClearBelow(x, PL), PL)                            \* (ci & -lsb) | lsb
ImmediateParent(x, L) == OrBit(ClearBelow(x, 4 * L), 4 * L)              \* nlsb = lsb << 2
ChildBegin(x, L) == x - L + L \div 4
ChildEnd(x, L) == x + L + L \div 4
\* Children(): ch[0] = ci - lsb + lsb>>2; lsb >>= 1; ch[i+1] = ch[i] + lsb
Child(x, L, j) == (x - L + L \div 4) + j * (L \div 2)
ChildBeginAtLevel(x, L, PL) == x - L + PL
ChildEndAtLevel(x, L, PL) == x + L + PL
NextId(x, L) == x + 2 * L
PrevId(x, L) == x - 2 * L
Contains(x, L, y) == RangeMin(x, L) <= y /\ y <= RangeMax(x, L)
Intersects(x, Lx, y, Ly) == RangeMin(y, Ly) <= RangeMax(x, Lx) /\ RangeMax(y, Ly) >= RangeMin(x, Lx)
IsLeaf(x) == x % 2 = 1
IsFace(x) == x % (4^30) = 0                                              \* ci & (lsbForLevel(0)-1) == 0

\* ---- the inductive invariant: id is a valid id of level lev, lev one of the levels of this run
\* (one implication per level so that every modulus is a literal)
AtStart == lev = Lev /\ ~moved
\* satisfiability witness: this "invariant" must be refuted, i.e. IndInit has a model (the laws are not vacuous)
NotStart == ~AtStart
IndInv ==
    /\ lev \in {Lev, Lev + 1, Lev - 1, OLev} /\ lev \in 0..30
    /\ (lev = Lev => Valid(id, LSB))
    /\ (lev = Lev + 1 => Valid(id, ChildLSB))
    /\ (lev = Lev - 1 => Valid(id, ParentLSB))
    /\ (lev = OLev => Valid(id, OLSB))
    /\ Valid(oid, OLSB)
    /\ k \in 0..3
\* an arbitrary valid id of level Lev, an arbitrary valid id of level OLev, an arbitrary child index
IndInit ==
    /\ id \in Int /\ lev = Lev /\ k \in Int /\ oid \in Int /\ moved = FALSE
    /\ IndInv
\* the face cells (Lev = OLev = 0)
Init ==
    /\ \E f \in 0..5 : id = CellIDFromFace(f)
    /\ lev = 0 /\ k \in 0..3 /\ moved = FALSE
    /\ \E f \in 0..5 : oid = CellIDFromFace(f)
\* the moves from level Lev: a child, the parent, the ancestor of level OLev, next, previous
Aux == k' \in 0..3 /\ oid' = oid /\ moved' = TRUE
Next ==
    /\ lev = Lev
    /\ \/ Lev < 30 /\ id' = Child(id, LSB, k) /\ lev' = Lev + 1 /\ Aux
       \/ Lev > 0 /\ id' = ImmediateParent(id, LSB) /\ lev' = Lev - 1 /\ Aux
       \/ OLev <= Lev /\ id' = Parent(id, OLSB) /\ lev' = OLev /\ Aux
       \/ NextId(id, LSB) < NumFaces * P61 /\ id' = NextId(id, LSB) /\ lev' = Lev /\ Aux
       \/ PrevId(id, LSB) >= 0 /\ id' = PrevId(id, LSB) /\ lev' = Lev /\ Aux

(***************************************************************************)
(* One-level obligations (about id at level Lev).  Every law is a          *)
(* conjunction of separate implications: Apalache checks each top-level    *)
(* conjunct with its own (small) SMT query.                                *)
(***************************************************************************)
\* lsb arithmetic: LSB divides id with an odd quotient (so LSB = id & -id: the largest power of two
\* dividing id), the id is below 2^64, its position has the documented layout, IsLeaf/IsFace agree
LsbLaw ==
    /\ AtStart => (id % LSB = 0 /\ (id \div LSB) % 2 = 1)
    /\ AtStart => (id < P64 /\ id >= LSB)
    /\ AtStart => (Pos(id) % (2 * LSB) = LSB /\ id = Face(id) * P61 + Pos(id))
    /\ AtStart => ((IsLeaf(id) <=> Lev = 30) /\ (IsFace(id) <=> Lev = 0))
\* leaf range: both ends are leaves of the same face, the id is the middle, LSB leaf ids inside
RangeLaw ==
    /\ AtStart => (Valid(RangeMin(id, LSB), 1) /\ Valid(RangeMax(id, LSB), 1))
    /\ AtStart => (Face(RangeMin(id, LSB)) = Face(id) /\ Face(RangeMax(id, LSB)) = Face(id))
    /\ AtStart => (RangeMin(id, LSB) <= id /\ id <= RangeMax(id, LSB))
    /\ AtStart => (RangeMax(id, LSB) - RangeMin(id, LSB) = 2 * (LSB - 1))
    /\ AtStart => (RangeMin(id, LSB) = ChildBeginAtLevel(id, LSB, 1))
    /\ AtStart => (RangeMax(id, LSB) + 2 = ChildEndAtLevel(id, LSB, 1))
\* children: valid cells of the next level that partition [RangeMin, RangeMax] in order
HasChild == AtStart /\ Lev < 30
Ch == Child(id, LSB, k)
ChildLaw ==
    /\ HasChild => Valid(Ch, ChildLSB)
    /\ HasChild => (Parent(Ch, LSB) = id /\ ImmediateParent(Ch, ChildLSB) = id)
    /\ HasChild => (RangeMin(id, LSB) <= RangeMin(Ch, ChildLSB) /\ RangeMax(Ch, ChildLSB) <= RangeMax(id, LSB))
    /\ HasChild => RangeMin(Child(id, LSB, 0), ChildLSB) = RangeMin(id, LSB)
    /\ HasChild => RangeMax(Child(id, LSB, 3), ChildLSB) = RangeMax(id, LSB)
    /\ (HasChild /\ k < 3) => RangeMax(Ch, ChildLSB) + 2 = RangeMin(Child(id, LSB, k + 1), ChildLSB)
    /\ (HasChild /\ k < 3) => NextId(Ch, ChildLSB) = Child(id, LSB, k + 1)
    /\ HasChild => ChildBegin(id, LSB) = Child(id, LSB, 0)
    /\ HasChild => ChildEnd(id, LSB) = NextId(Child(id, LSB, 3), ChildLSB)
    /\ HasChild => ChildBegin(id, LSB) = ChildBeginAtLevel(id, LSB, ChildLSB)
    /\ HasChild => ChildEnd(id, LSB) = ChildEndAtLevel(id, LSB, ChildLSB)
    /\ HasChild => (Contains(id, LSB, Ch) /\ ~Contains(Ch, ChildLSB, id))
    /\ HasChild => (Ch < P64 /\ ChildEnd(id, LSB) < P64)
\* moving along the curve at one level
NextLaw ==
    /\ AtStart => RangeMin(NextId(id, LSB), LSB) = RangeMax(id, LSB) + 2
    /\ AtStart => RangeMax(PrevId(id, LSB), LSB) + 2 = RangeMin(id, LSB)
    /\ (AtStart /\ NextId(id, LSB) < NumFaces * P61) => Valid(NextId(id, LSB), LSB)
    /\ (AtStart /\ PrevId(id, LSB) >= 0) => Valid(PrevId(id, LSB), LSB)
    /\ AtStart => NextId(id, LSB) < P64
OneLevelLaws == LsbLaw /\ RangeLaw /\ ChildLaw /\ NextLaw

(***************************************************************************)
(* Two-level obligations (id at level Lev, the other level is OLev).       *)
(***************************************************************************)
\* the level of a valid id is unique: no id is valid at two levels
LevelUniqueLaw == (AtStart /\ OLev # Lev) => ~Valid(id, OLSB)
\* ancestors: Parent(OLev) is the valid cell of that level whose range contains the id's range
HasAnc == AtStart /\ OLev <= Lev
Anc == Parent(id, OLSB)
ParentLaw ==
    /\ HasAnc => Valid(Anc, OLSB)
    /\ HasAnc => (RangeMin(Anc, OLSB) <= RangeMin(id, LSB) /\ RangeMax(id, LSB) <= RangeMax(Anc, OLSB))
    /\ HasAnc => Contains(Anc, OLSB, id)
    /\ (HasAnc /\ OLev = Lev) => Anc = id
    /\ (HasAnc /\ OLev + 1 = Lev) => ImmediateParent(id, LSB) = Anc
    /\ HasAnc => Face(Anc) = Face(id)
    /\ (HasAnc /\ OLev < Lev) => \E j \in 0..3 : Contains(Child(Anc, OLSB, j), OLSB \div 4, id)
\* ChildBeginAtLevel / ChildEndAtLevel for the level OLev >= Lev
HasDesc == AtStart /\ OLev >= Lev
First == ChildBeginAtLevel(id, LSB, OLSB)
End == ChildEndAtLevel(id, LSB, OLSB)
LevelRangeLaw ==
    /\ HasDesc => (Valid(First, OLSB) /\ RangeMin(First, OLSB) = RangeMin(id, LSB))
    /\ HasDesc => End - First = 2 * LSB
    /\ HasDesc => RangeMax(PrevId(End, OLSB), OLSB) = RangeMax(id, LSB)
    /\ HasDesc => (Parent(First, LSB) = id /\ Parent(PrevId(End, OLSB), LSB) = id)
\* Contains <=> inclusion of leaf ranges <=> "is the ancestor at its level"; cells are nested or disjoint
\* (separate implications: Apalache checks every top-level conjunct with its own SMT query)
InclLaw ==
    AtStart => (Contains(id, LSB, oid) <=>
                  (RangeMin(id, LSB) <= RangeMin(oid, OLSB) /\ RangeMax(oid, OLSB) <= RangeMax(id, LSB)))
AncestorLaw == AtStart => (Contains(id, LSB, oid) <=> (OLev >= Lev /\ Parent(oid, LSB) = id))
NestedLaw == AtStart => (Intersects(id, LSB, oid, OLSB) <=> (Contains(id, LSB, oid) \/ Contains(oid, OLSB, id)))
SymmetricLaw == AtStart => (Intersects(id, LSB, oid, OLSB) <=> Intersects(oid, OLSB, id, LSB))
AntisymLaw == AtStart => ((Contains(id, LSB, oid) /\ Contains(oid, OLSB, id)) => id = oid)
OrderLaw == AtStart => ((id < oid /\ ~Intersects(id, LSB, oid, OLSB)) => RangeMax(id, LSB) < RangeMin(oid, OLSB))
ContainsLaw == InclLaw /\ AncestorLaw /\ NestedLaw /\ SymmetricLaw /\ AntisymLaw /\ OrderLaw
TwoLevelLaws == LevelUniqueLaw /\ ParentLaw /\ LevelRangeLaw /\ ContainsLaw
=============================================================================
