----------------------------- MODULE IdAlgebra ------------------------------
(***************************************************************************)
(* Extension of C01, checked with Apalache (unbounded integers, SMT): the  *)
(* 64-bit id algebra of s2/cellid.go.                                      *)
(*                                                                         *)
(* An id is an integer in [0, 2^64).  The id of the cell of level l with   *)
(* face f and position p (0 <= p < 4^l) along the curve is                 *)
(*        f * 2^61 + p * (2 * lsb) + lsb,     lsb = 4^(30 - l),            *)
(* i.e. an odd multiple of lsb = LsbForLevel[l] below 6 * 2^61.            *)
(* Bit operations are written arithmetically, for a power of two p:        *)
(*   x & -p = x - x % p,   x & p # 0 iff (x \div p) % 2 = 1,               *)
(*   x | p  = x + p if that bit is clear;                                  *)
(*   x & -x (lsb) = the largest power of two dividing x, which for a valid *)
(*   id of level l is LsbForLevel[l] (obligation LsbLaw: it divides x, the *)
(*   quotient is odd, and no other level has this property).               *)
(* The state is one arbitrary valid id with its level, a child index, an   *)
(* ancestor level and a second arbitrary valid id; the obligations are     *)
(* invariants of that state (length 0 from IndInit) and the preservation   *)
(* of validity by the moves child / parent / next / previous (length 1).   *)
(* Since every valid id is reached from a face cell by child moves, this   *)
(* is a proof for all 6 * (4^31 - 1) / 3 cell ids.                         *)
(*                                                                         *)
(*   apalache-mc check --config=<LevLo/LevHi> --init=IndInit --inv=<Ob> --length=0 IdAlgebra.tla *)
(*   apalache-mc check --init=Init    --inv=IndInv --length=0               *)
(*   apalache-mc check --init=IndInit --inv=IndInv --length=1               *)
(***************************************************************************)
EXTENDS Integers

CONSTANTS
    \* the levels of `id` covered by one run are LevLo..LevHi
    \* @type: Int;
    LevLo,
    \* @type: Int;
    LevHi

VARIABLES
    \* @type: Int;
    id,
    \* @type: Int;
    lev,
    \* @type: Int;
    k,
    \* @type: Int;
    pl,
    \* @type: Int;
    oid,
    \* @type: Int;
    olev

MaxLevel == 30
NumFaces == 6
P61 == 2^61
P64 == 2^64
\* lsbForLevel(level) = 1 << 2*(MaxLevel-level)
\* @type: Int -> Int;
LsbForLevel == [l \in 0..30 |-> 4^(30 - l)]

ClearBelow(x, p) == x - (x % p)                          \* x & -p
BitSet(x, p) == (x \div p) % 2 = 1                       \* x & p # 0
OrBit(x, p) == IF BitSet(x, p) THEN x ELSE x + p         \* x | p

\* ---- validity: Face() < 6 and the lowest set bit is at an even position (lsb & 0x1555..5 # 0)
HasLevel(x, l) == x % (2 * LsbForLevel[l]) = LsbForLevel[l]
Valid(x, l) == l \in 0..30 /\ x >= 0 /\ x \div P61 < NumFaces /\ HasLevel(x, l)

\* ---- s2/cellid.go, with L = lsb() of the receiver
Face(x) == x \div P61
Pos(x) == x % P61
CellIDFromFace(f) == f * P61 + LsbForLevel[0]
RangeMin(x, L) == x - (L - 1)
RangeMax(x, L) == x + (L - 1)
Parent(x, l) == OrBit(ClearBelow(x, LsbForLevel[l]), LsbForLevel[l])     \* (ci & -lsb) | lsb
ImmediateParent(x, L) == OrBit(ClearBelow(x, 4 * L), 4 * L)              \* nlsb = lsb << 2
ChildBegin(x, L) == x - L + L \div 4
ChildEnd(x, L) == x + L + L \div 4
\* Children(): ch[0] = ci - lsb + lsb>>2; lsb >>= 1; ch[i+1] = ch[i] + lsb
Child(x, L, j) == (x - L + L \div 4) + j * (L \div 2)
ChildBeginAtLevel(x, L, l) == x - L + LsbForLevel[l]
ChildEndAtLevel(x, L, l) == x + L + LsbForLevel[l]
NextId(x, L) == x + 2 * L
PrevId(x, L) == x - 2 * L
Contains(x, L, y) == RangeMin(x, L) <= y /\ y <= RangeMax(x, L)
Intersects(x, Lx, y, Ly) == RangeMin(y, Ly) <= RangeMax(x, Lx) /\ RangeMax(y, Ly) >= RangeMin(x, Lx)
IsLeaf(x) == x % 2 = 1
IsFace(x) == x % LsbForLevel[0] = 0                                      \* ci & (lsbForLevel(0)-1) == 0

LSB == LsbForLevel[lev]
OLSB == LsbForLevel[olev]

\* ---- the inductive invariant and its restriction to the levels of one run
IndInv ==
    /\ Valid(id, lev) /\ Valid(oid, olev)
    /\ k \in 0..3 /\ pl \in 0..30 /\ pl <= lev
IndInit ==
    /\ id \in Int /\ lev \in LevLo..LevHi /\ k \in Int /\ pl \in Int /\ oid \in Int /\ olev \in 0..30
    /\ IndInv
\* the face cells
Init ==
    /\ \E f \in 0..5 : id = CellIDFromFace(f)
    /\ lev = 0 /\ k \in 0..3 /\ pl = 0
    /\ \E f \in 0..5 : oid = CellIDFromFace(f)
    /\ olev = 0
\* the moves; the auxiliary components are arbitrary again
Aux == k' \in 0..3 /\ pl' \in 0..lev' /\ oid' = oid /\ olev' = olev
Next ==
    \/ lev < 30 /\ id' = Child(id, LSB, k) /\ lev' = lev + 1 /\ Aux
    \/ lev > 0 /\ id' = ImmediateParent(id, LSB) /\ lev' = lev - 1 /\ Aux
    \/ pl <= lev /\ id' = Parent(id, pl) /\ lev' = pl /\ Aux
    \/ NextId(id, LSB) < NumFaces * P61 /\ id' = NextId(id, LSB) /\ lev' = lev /\ Aux
    \/ PrevId(id, LSB) >= 0 /\ id' = PrevId(id, LSB) /\ lev' = lev /\ Aux

(***************************************************************************)
(* Obligations (state invariants under IndInit).                           *)
(***************************************************************************)
\* lsb arithmetic: LSB divides id with an odd quotient (so LSB = id & -id), no other level fits,
\* the id is below 2^64, its position has the documented layout, Level/IsLeaf/IsFace agree
LsbLaw ==
    /\ id % LSB = 0 /\ (id \div LSB) % 2 = 1
    /\ \A l \in 0..30 : HasLevel(id, l) => l = lev
    /\ id < P64 /\ id >= LSB
    /\ Pos(id) % (2 * LSB) = LSB /\ id = Face(id) * P61 + Pos(id)
    /\ (IsLeaf(id) <=> lev = 30) /\ (IsFace(id) <=> lev = 0)
\* leaf range: both ends are leaves of the same face, the id is the middle, LSB leaves inside
RangeLaw ==
    /\ Valid(RangeMin(id, LSB), 30) /\ Valid(RangeMax(id, LSB), 30)
    /\ Face(RangeMin(id, LSB)) = Face(id) /\ Face(RangeMax(id, LSB)) = Face(id)
    /\ RangeMin(id, LSB) <= id /\ id <= RangeMax(id, LSB)
    /\ RangeMax(id, LSB) - RangeMin(id, LSB) = 2 * (LSB - 1)
    /\ RangeMin(id, LSB) = ChildBeginAtLevel(id, LSB, 30)
    /\ RangeMax(id, LSB) + 2 = ChildEndAtLevel(id, LSB, 30)
\* children: valid cells of the next level that partition [RangeMin, RangeMax] in order
ChildLaw ==
    lev < 30 =>
        LET c == Child(id, LSB, k)  CL == LSB \div 4 IN
        /\ CL = LsbForLevel[lev + 1]
        /\ Valid(c, lev + 1)
        /\ Parent(c, lev) = id /\ ImmediateParent(c, CL) = id
        /\ RangeMin(id, LSB) <= RangeMin(c, CL) /\ RangeMax(c, CL) <= RangeMax(id, LSB)
        /\ RangeMin(Child(id, LSB, 0), CL) = RangeMin(id, LSB)
        /\ RangeMax(Child(id, LSB, 3), CL) = RangeMax(id, LSB)
        /\ (k < 3 => RangeMax(c, CL) + 2 = RangeMin(Child(id, LSB, k + 1), CL))
        /\ (k < 3 => NextId(c, CL) = Child(id, LSB, k + 1))
        /\ ChildBegin(id, LSB) = Child(id, LSB, 0)
        /\ ChildEnd(id, LSB) = NextId(Child(id, LSB, 3), CL)
        /\ ChildBegin(id, LSB) = ChildBeginAtLevel(id, LSB, lev + 1)
        /\ ChildEnd(id, LSB) = ChildEndAtLevel(id, LSB, lev + 1)
        /\ Contains(id, LSB, c) /\ ~Contains(c, CL, id)
        /\ c < P64 /\ ChildEnd(id, LSB) < P64
\* ancestors: Parent(level) is the valid cell of that level whose range contains the id's range
ParentLaw ==
    LET p == Parent(id, pl)  PL == LsbForLevel[pl] IN
    /\ Valid(p, pl)
    /\ RangeMin(p, PL) <= RangeMin(id, LSB) /\ RangeMax(id, LSB) <= RangeMax(p, PL)
    /\ Contains(p, PL, id)
    /\ (pl = lev => p = id)
    /\ (pl + 1 = lev => ImmediateParent(id, LSB) = p)
    /\ Face(p) = Face(id)
    /\ (pl < lev => \E j \in 0..3 : Contains(Child(p, PL, j), PL \div 4, id))
\* ChildBeginAtLevel / ChildEndAtLevel for a deeper level pl' = olev (reused as a level >= lev)
LevelRangeLaw ==
    olev >= lev =>
        LET b == ChildBeginAtLevel(id, LSB, olev)  e == ChildEndAtLevel(id, LSB, olev) IN
        /\ Valid(b, olev) /\ RangeMin(b, OLSB) = RangeMin(id, LSB)
        /\ e - b = 2 * LSB
        /\ RangeMax(PrevId(e, OLSB), OLSB) = RangeMax(id, LSB)
        /\ Parent(b, lev) = id /\ Parent(PrevId(e, OLSB), lev) = id
\* Contains <=> inclusion of leaf ranges <=> "is the ancestor at its level"; cells are nested or disjoint
ContainsLaw ==
    LET c1 == Contains(id, LSB, oid)
        incl == RangeMin(id, LSB) <= RangeMin(oid, OLSB) /\ RangeMax(oid, OLSB) <= RangeMax(id, LSB)
    IN  /\ c1 <=> incl
        /\ c1 <=> (olev >= lev /\ Parent(oid, lev) = id)
        /\ Intersects(id, LSB, oid, OLSB) <=> (Contains(id, LSB, oid) \/ Contains(oid, OLSB, id))
        /\ Intersects(id, LSB, oid, OLSB) <=> Intersects(oid, OLSB, id, LSB)
        /\ (Contains(id, LSB, oid) /\ Contains(oid, OLSB, id)) => id = oid
        /\ (id < oid /\ ~Intersects(id, LSB, oid, OLSB)) => RangeMax(id, LSB) < RangeMin(oid, OLSB)
\* moving along the curve at one level
NextLaw ==
    /\ RangeMin(NextId(id, LSB), LSB) = RangeMax(id, LSB) + 2
    /\ RangeMax(PrevId(id, LSB), LSB) + 2 = RangeMin(id, LSB)
    /\ (NextId(id, LSB) < NumFaces * P61 => Valid(NextId(id, LSB), lev))
    /\ (PrevId(id, LSB) >= 0 => Valid(PrevId(id, LSB), lev))
    /\ NextId(id, LSB) < P64 /\ PrevId(id, LSB) > -P61

AllLaws == LsbLaw /\ RangeLaw /\ ChildLaw /\ ParentLaw /\ LevelRangeLaw /\ ContainsLaw /\ NextLaw
=============================================================================
