----------------------------- MODULE IdAlgebra ------------------------------
(***************************************************************************)
(* Extension of C01, checked with Apalache (unbounded integers, SMT): the  *)
(* 64-bit id algebra of s2/cellid.go.                                      *)
(*                                                                         *)
(* An id is an integer in [0, 2^64).  The id of the cell of level l with   *)
(* face f and position p (0 <= p < 4^l) along the curve is                 *)
(*        f * 2^61 + p * (2 * lsb) + lsb,     lsb = 4^(30 - l),            *)
(* i.e. an odd multiple of lsb = LsbForLevel[l] below 6 * 2^61.            *)
(* Bit operations are written arithmetically, for a power of two p:        *)
(*   x & -p = x - x % p,   x & p # 0 iff (x \div p) % 2 = 1,               *)
(*   x | p  = x + p if that bit is clear;                                  *)
(*   x & -x (lsb) = the largest power of two dividing x, which for a valid *)
(*   id of level l is LsbForLevel[l] (obligation LsbLaw: it divides x, the *)
(*   quotient is odd, and no other level has this property).               *)
(* The state is one arbitrary valid id with its level, a child index, an   *)
(* ancestor level and a second arbitrary valid id; the obligations are     *)
(* invariants of that state (length 0 from IndInit) and the preservation   *)
(* of validity by the moves child / parent / next / previous (length 1).   *)
(* Since every valid id is reached from a face cell by child moves, this   *)
(* is a proof for all 6 * (4^31 - 1) / 3 cell ids.                         *)
(*                                                                         *)
(*                                                                         *)
(* SMT friendliness: x % lsb is linear only if lsb is a literal, so every  *)
(* law is the conjunction over the 31 literal levels c of                  *)
(*   lev = c => Body(4^(30 - c))      (operators Every / Some below);      *)
(* the laws about two levels (id and oid / ancestor level) take the level  *)
(* of id from the constant Lev (0..30; Lev = 31 means "any level" and is   *)
(* used with the one-level laws only) and range over the other level.      *)
(*   apalache-mc check --config=<Lev> --init=IndInit --inv=<Law> --length=0 *)
(*   apalache-mc check --config=<Lev> --init=Init    --inv=IndInv --length=0 *)
(*   apalache-mc check --config=<Lev> --init=IndInit --inv=IndInv --length=1 *)
(***************************************************************************)
EXTENDS Integers

CONSTANT
    \* the level of `id` in this run (0..30), or 31: any level
    \* @type: Int;
    Lev

VARIABLES
    \* @type: Int;
    id,
    \* @type: Int;
    lev,
    \* @type: Int;
    k,
    \* @type: Int;
    pl,
    \* @type: Int;
    oid,
    \* @type: Int;
    olev

MaxLevel == 30
NumFaces == 6
P61 == 2^61
P64 == 2^64
\* lsbForLevel(level) = 1 << 2*(MaxLevel-level); c is always a literal
Lsb(c) == 4^(30 - c)

Every(P(_)) ==
    /\ P(0) /\ P(1) /\ P(2) /\ P(3) /\ P(4) /\ P(5) /\ P(6) /\ P(7) /\ P(8) /\ P(9) /\ P(10)
    /\ P(11) /\ P(12) /\ P(13) /\ P(14) /\ P(15) /\ P(16) /\ P(17) /\ P(18) /\ P(19) /\ P(20)
    /\ P(21) /\ P(22) /\ P(23) /\ P(24) /\ P(25) /\ P(26) /\ P(27) /\ P(28) /\ P(29) /\ P(30)
Some(P(_)) ==
    \/ P(0) \/ P(1) \/ P(2) \/ P(3) \/ P(4) \/ P(5) \/ P(6) \/ P(7) \/ P(8) \/ P(9) \/ P(10)
    \/ P(11) \/ P(12) \/ P(13) \/ P(14) \/ P(15) \/ P(16) \/ P(17) \/ P(18) \/ P(19) \/ P(20)
    \/ P(21) \/ P(22) \/ P(23) \/ P(24) \/ P(25) \/ P(26) \/ P(27) \/ P(28) \/ P(29) \/ P(30)

ClearBelow(x, p) == x - (x % p)                          \* x & -p
BitSet(x, p) == (x \div p) % 2 = 1                       \* x & p # 0
OrBit(x, p) == IF BitSet(x, p) THEN x ELSE x + p         \* x | p

\* ---- validity: Face() < 6 and the lowest set bit is at an even position (lsb & 0x1555..5 # 0)
HasLevel(x, c) == x % (2 * Lsb(c)) = Lsb(c)
Valid(x, l) == x >= 0 /\ x \div P61 < NumFaces /\ Some(LAMBDA c : l = c /\ HasLevel(x, c))

\* ---- s2/cellid.go, with L = lsb() of the receiver and PL = lsbForLevel(level argument)
Face(x) == x \div P61
Pos(x) == x % P61
CellIDFromFace(f) == f * P61 + Lsb(0)
RangeMin(x, L) == x - (L - 1)
RangeMax(x, L) == x + (L - 1)
Parent(x, PL) == OrBit(ClearBelow(x, PL), PL)                            \* (ci & -lsb) | lsb
ImmediateParent(x, L) == OrBit(ClearBelow(x, 4 * L), 4 * L)              \* nlsb = lsb << 2
ChildBegin(x, L) == x - L + L \div 4
ChildEnd(x, L) == x + L + L \div 4
\* Children(): ch[0] = ci - lsb + lsb>>2; lsb >>= 1; ch[i+1] = ch[i] + lsb
Child(x, L, j) == (x - L + L \div 4) + j * (L \div 2)
ChildBeginAtLevel(x, L, PL) == x - L + PL
ChildEndAtLevel(x, L, PL) == x + L + PL
NextId(x, L) == x + 2 * L
PrevId(x, L) == x - 2 * L
Contains(x, L, y) == RangeMin(x, L) <= y /\ y <= RangeMax(x, L)
Intersects(x, Lx, y, Ly) == RangeMin(y, Ly) <= RangeMax(x, Lx) /\ RangeMax(y, Ly) >= RangeMin(x, Lx)
IsLeaf(x) == x % 2 = 1
IsFace(x) == x % Lsb(0) = 0                                              \* ci & (lsbForLevel(0)-1) == 0

\* ---- the inductive invariant and its restriction to the level of one run
IndInv ==
    /\ lev \in 0..30 /\ olev \in 0..30
    /\ Valid(id, lev) /\ Valid(oid, olev)
    /\ k \in 0..3 /\ pl \in 0..30 /\ pl <= lev
IndInit ==
    /\ id \in Int /\ lev \in Int /\ k \in Int /\ pl \in Int /\ oid \in Int /\ olev \in Int
    /\ (Lev <= 30 => lev = Lev)
    /\ IndInv
\* the face cells
Init ==
    /\ \E f \in 0..5 : id = CellIDFromFace(f)
    /\ lev = 0 /\ k \in 0..3 /\ pl = 0
    /\ \E f \in 0..5 : oid = CellIDFromFace(f)
    /\ olev = 0
\* the moves (c = literal level of id); the auxiliary components are arbitrary again
Aux == k' \in 0..3 /\ pl' \in 0..lev' /\ oid' = oid /\ olev' = olev
MoveAt(c) ==
    /\ lev = c
    /\ \/ c < 30 /\ id' = Child(id, Lsb(c), k) /\ lev' = c + 1 /\ Aux
       \/ c > 0 /\ id' = ImmediateParent(id, Lsb(c)) /\ lev' = c - 1 /\ Aux
       \/ NextId(id, Lsb(c)) < NumFaces * P61 /\ id' = NextId(id, Lsb(c)) /\ lev' = c /\ Aux
       \/ PrevId(id, Lsb(c)) >= 0 /\ id' = PrevId(id, Lsb(c)) /\ lev' = c /\ Aux
       \/ Some(LAMBDA a : a <= c /\ pl = a /\ id' = Parent(id, Lsb(a)) /\ lev' = a /\ Aux)
Next == Some(MoveAt)

(***************************************************************************)
(* One-level obligations (state invariants under IndInit, any Lev).        *)
(***************************************************************************)
\* lsb arithmetic: L divides id with an odd quotient (so L = id & -id), no other level fits,
\* the id is below 2^64, its position has the documented layout, IsLeaf/IsFace agree with the level
LsbAt(c) ==
    lev = c =>
        LET L == Lsb(c) IN
        /\ id % L = 0 /\ (id \div L) % 2 = 1
        /\ Every(LAMBDA a : HasLevel(id, a) => a = c)
        /\ id < P64 /\ id >= L
        /\ Pos(id) % (2 * L) = L /\ id = Face(id) * P61 + Pos(id)
        /\ (IsLeaf(id) <=> c = 30) /\ (IsFace(id) <=> c = 0)
LsbLaw == Every(LsbAt)
\* leaf range: both ends are leaves of the same face, the id is the middle, L leaf ids inside
RangeAt(c) ==
    lev = c =>
        LET L == Lsb(c) IN
        /\ Valid(RangeMin(id, L), 30) /\ Valid(RangeMax(id, L), 30)
        /\ Face(RangeMin(id, L)) = Face(id) /\ Face(RangeMax(id, L)) = Face(id)
        /\ RangeMin(id, L) <= id /\ id <= RangeMax(id, L)
        /\ RangeMax(id, L) - RangeMin(id, L) = 2 * (L - 1)
        /\ RangeMin(id, L) = ChildBeginAtLevel(id, L, Lsb(30))
        /\ RangeMax(id, L) + 2 = ChildEndAtLevel(id, L, Lsb(30))
RangeLaw == Every(RangeAt)
\* children: valid cells of the next level that partition [RangeMin, RangeMax] in order
ChildAt(c) ==
    (lev = c /\ c < 30) =>
        LET L == Lsb(c)  CL == Lsb(c + 1)  ch == Child(id, L, k) IN
        /\ CL = L \div 4
        /\ Valid(ch, c + 1)
        /\ Parent(ch, L) = id /\ ImmediateParent(ch, CL) = id
        /\ RangeMin(id, L) <= RangeMin(ch, CL) /\ RangeMax(ch, CL) <= RangeMax(id, L)
        /\ RangeMin(Child(id, L, 0), CL) = RangeMin(id, L)
        /\ RangeMax(Child(id, L, 3), CL) = RangeMax(id, L)
        /\ (k < 3 => RangeMax(ch, CL) + 2 = RangeMin(Child(id, L, k + 1), CL))
        /\ (k < 3 => NextId(ch, CL) = Child(id, L, k + 1))
        /\ ChildBegin(id, L) = Child(id, L, 0)
        /\ ChildEnd(id, L) = NextId(Child(id, L, 3), CL)
        /\ ChildBegin(id, L) = ChildBeginAtLevel(id, L, CL)
        /\ ChildEnd(id, L) = ChildEndAtLevel(id, L, CL)
        /\ Contains(id, L, ch) /\ ~Contains(ch, CL, id)
        /\ ch < P64 /\ ChildEnd(id, L) < P64
ChildLaw == Every(ChildAt)
\* moving along the curve at one level
NextAt(c) ==
    lev = c =>
        LET L == Lsb(c) IN
        /\ RangeMin(NextId(id, L), L) = RangeMax(id, L) + 2
        /\ RangeMax(PrevId(id, L), L) + 2 = RangeMin(id, L)
        /\ (NextId(id, L) < NumFaces * P61 => Valid(NextId(id, L), c))
        /\ (PrevId(id, L) >= 0 => Valid(PrevId(id, L), c))
        /\ NextId(id, L) < P64
NextLaw == Every(NextAt)
OneLevelLaws == LsbLaw /\ RangeLaw /\ ChildLaw /\ NextLaw

(***************************************************************************)
(* Two-level obligations: the level of id is the constant Lev (0..30), the *)
(* other level (pl, olev) ranges over all literal levels.                  *)
(***************************************************************************)
\* ancestors: Parent(level) is the valid cell of that level whose range contains the id's range
ParentAt(a) ==
    (pl = a /\ a <= Lev) =>
        LET L == Lsb(Lev)  PL == Lsb(a)  p == Parent(id, PL) IN
        /\ Valid(p, a)
        /\ RangeMin(p, PL) <= RangeMin(id, L) /\ RangeMax(id, L) <= RangeMax(p, PL)
        /\ Contains(p, PL, id)
        /\ (a = Lev => p = id)
        /\ (a + 1 = Lev => ImmediateParent(id, L) = p)
        /\ Face(p) = Face(id)
        /\ (a < Lev => \E j \in 0..3 : Contains(Child(p, PL, j), PL \div 4, id))
ParentLaw == Every(ParentAt)
\* ChildBeginAtLevel / ChildEndAtLevel for a level b >= Lev (olev is reused as that level)
LevelRangeAt(b) ==
    (olev = b /\ b >= Lev) =>
        LET L == Lsb(Lev)  BL == Lsb(b)
            first == ChildBeginAtLevel(id, L, BL)  end == ChildEndAtLevel(id, L, BL) IN
        /\ Valid(first, b) /\ RangeMin(first, BL) = RangeMin(id, L)
        /\ end - first = 2 * L
        /\ RangeMax(PrevId(end, BL), BL) = RangeMax(id, L)
        /\ Parent(first, L) = id /\ Parent(PrevId(end, BL), L) = id
LevelRangeLaw == Every(LevelRangeAt)
\* Contains <=> inclusion of leaf ranges <=> "is the ancestor at its level"; cells are nested or disjoint
ContainsAt(b) ==
    olev = b =>
        LET L == Lsb(Lev)  OL == Lsb(b)
            c1 == Contains(id, L, oid)
            incl == RangeMin(id, L) <= RangeMin(oid, OL) /\ RangeMax(oid, OL) <= RangeMax(id, L)
        IN  /\ c1 <=> incl
            /\ c1 <=> (b >= Lev /\ Parent(oid, L) = id)
            /\ Intersects(id, L, oid, OL) <=> (Contains(id, L, oid) \/ Contains(oid, OL, id))
            /\ Intersects(id, L, oid, OL) <=> Intersects(oid, OL, id, L)
            /\ (Contains(id, L, oid) /\ Contains(oid, OL, id)) => id = oid
            /\ (id < oid /\ ~Intersects(id, L, oid, OL)) => RangeMax(id, L) < RangeMin(oid, OL)
ContainsLaw == Every(ContainsAt)
TwoLevelLaws == ParentLaw /\ LevelRangeLaw /\ ContainsLaw
=============================================================================
