-------------------------- MODULE Gen_IterRegions --------------------------
(***************************************************************************)
(* EXT (C05, C06): two Region implementations in the discrete cell world   *)
(* of CellUnions.tla (cells <<face, path>> below NF roots, L levels, a     *)
(* cell = the set of its level-L leaves).                                  *)
(*                                                                         *)
(* Mode "ru"  s2/regionunion.go.  Documented meaning: "a union of possibly *)
(*   overlapping regions"; ContainsCell "only returns true if one of the   *)
(*   regions in the union fully contains the cell"; IntersectsCell /       *)
(*   ContainsPoint: some member does; RectBound / CapBound /               *)
(*   CellUnionBound: bounds of the union, hence of every member.  Members  *)
(*   come from a pool drawn by the driver: cells, a normalized cell union, *)
(*   a nested RegionUnion of cells, points (centres of leaves) and caps    *)
(*   built around cells.  Answers of cells, unions and points are sets of  *)
(*   leaves, hence exact.  A cap is "twice the bounding cap of cell a":    *)
(*   the specification knows only what holds with a wide margin - it       *)
(*   contains a and everything inside a, it is disjoint from the cube      *)
(*   face opposite to a - and answers "U" (no prediction) otherwise.  The  *)
(*   union's answer is the three-valued disjunction.  A state of the       *)
(*   generator is a sequence of pool indices (the union, in member order). *)
(*                                                                         *)
(* Mode "sir"  s2/shapeindex_region.go  CellUnionBound as a function of    *)
(*   the set of index cells, as its doc comment defines it: if the index   *)
(*   cells lie on two or more faces, one cell per face - "the smallest     *)
(*   Cell that covers the ShapeIndex cells within that face"; otherwise    *)
(*   with S the smallest cell containing all index cells, "for each child  *)
(*   cell C we add the smallest Cell C' that covers the index cells within *)
(*   C"; a single index cell is its own bound, the empty index has the     *)
(*   empty bound.  A state is an antichain (pairwise disjoint cells) drawn *)
(*   from a pool.                                                          *)
(*                                                                         *)
(* Mode "scene"  real indexes for ShapeIndexRegion: one to MaxRects        *)
(*   rectangles of level-G grid cells on the faces SFaces (each a shape of *)
(*   its own, possibly overlapping, touching, on different faces, hugging  *)
(*   the face boundary).  The specification supplies what every bound must *)
(*   cover (the cells of the rectangles) and how many cells the bound may  *)
(*   have (4 while everything stays strictly inside one face, else 6).     *)
(***************************************************************************)
EXTENDS CellUnions, Json

CONSTANTS Mode,
          PickCells, PickCaps, PickPts, PickU, PickN,    \* ru: cell indices the pool is built from
          MaxMembers,
          SirPool, MaxSir,                               \* sir
          G, SFaces, XS, YS, MaxRects                    \* scene

VARIABLE t
Sorted(S) == SetToSortSeq(S, <)

\* ======================================================================= RegionUnion
FaceI(i) == CellAt[i][1]
Opposite(i, j) == NF = 6 /\ FaceI(j) = (FaceI(i) + 3) % 6
LeafCellOf == [x \in AllLeaves |-> CHOOSE i \in CellIds : LevelI[i] = L /\ LoI[i] = x]

Pool ==
    [n \in 1..Cardinality(PickCells) |-> [k |-> "cell", c |-> <<Sorted(PickCells)[n]>>]]
    \o [n \in 1..Cardinality(PickCaps) |-> [k |-> "cap", c |-> <<Sorted(PickCaps)[n]>>]]
    \o [n \in 1..Cardinality(PickPts) |-> [k |-> "pt", c |-> <<Sorted(PickPts)[n]>>]]
    \o (IF PickU = {} THEN <<>> ELSE <<[k |-> "union", c |-> Canon(LeafSetOf(PickU))]>>)
    \o (IF PickN = {} THEN <<>> ELSE <<[k |-> "nest", c |-> Sorted(PickN)]>>)
ASSUME Mode = "ru" => \A i \in PickPts : LevelI[i] = L

B3(b) == IF b THEN "T" ELSE "F"
Or3(S) == IF "T" \in S THEN "T" ELSE IF "U" \in S THEN "U" ELSE "F"

\* what a member answers for the cell with index x
MContainsCell(m, x) ==
    CASE m.k = "cell"  -> B3(LeavesI[x] \subseteq LeavesI[m.c[1]])
      [] m.k = "union" -> B3(LeavesI[x] \subseteq LeafSet(m.c))
      [] m.k = "nest"  -> B3(\E n \in 1..Len(m.c) : LeavesI[x] \subseteq LeavesI[m.c[n]])
      [] m.k = "pt"    -> "F"
      [] m.k = "cap"   -> IF LeavesI[x] \subseteq LeavesI[m.c[1]] THEN "T"
                          ELSE IF Opposite(m.c[1], x) THEN "F" ELSE "U"
MIntersectsCell(m, x) ==
    CASE m.k = "cell"  -> B3(LeavesI[x] \cap LeavesI[m.c[1]] # {})
      [] m.k = "union" -> B3(LeavesI[x] \cap LeafSet(m.c) # {})
      [] m.k = "nest"  -> B3(\E n \in 1..Len(m.c) : LeavesI[x] \cap LeavesI[m.c[n]] # {})
      [] m.k = "pt"    -> B3(LeavesI[m.c[1]] \subseteq LeavesI[x])
      [] m.k = "cap"   -> IF LeavesI[x] \cap LeavesI[m.c[1]] # {} THEN "T"
                          ELSE IF Opposite(m.c[1], x) THEN "F" ELSE "U"
\* ... for the centre of leaf y
MContainsPoint(m, y) ==
    CASE m.k = "cell"  -> B3(y \in LeavesI[m.c[1]])
      [] m.k = "union" -> B3(y \in LeafSet(m.c))
      [] m.k = "nest"  -> B3(\E n \in 1..Len(m.c) : y \in LeavesI[m.c[n]])
      [] m.k = "pt"    -> B3(LeavesI[m.c[1]] = {y})
      [] m.k = "cap"   -> IF y \in LeavesI[m.c[1]] THEN "T"
                          ELSE IF Opposite(m.c[1], LeafCellOf[y]) THEN "F" ELSE "U"
\* leaves whose centres every bound of the member has to contain
MWitness(m) ==
    CASE m.k = "cell"  -> LeavesI[m.c[1]]
      [] m.k = "union" -> LeafSet(m.c)
      [] m.k = "nest"  -> LeafSet(m.c)
      [] m.k = "pt"    -> {}
      [] m.k = "cap"   -> LeavesI[m.c[1]]

Members(u) == [n \in 1..Len(u) |-> Pool[u[n]]]
RUContainsCell(ms, x) == Or3({MContainsCell(ms[n], x) : n \in 1..Len(ms)})
RUIntersectsCell(ms, x) == Or3({MIntersectsCell(ms[n], x) : n \in 1..Len(ms)})
RUContainsPoint(ms, y) == Or3({MContainsPoint(ms[n], y) : n \in 1..Len(ms)})
RUWitness(ms) == UNION {MWitness(ms[n]) : n \in 1..Len(ms)}

InitRU == t = <<>>
NextRU ==
    /\ Len(t) < MaxMembers
    /\ \E i \in 1..Len(Pool) :
          /\ (IF Len(t) < 2 THEN TRUE ELSE i > t[Len(t)])          \* all ordered pairs, triples only increasing
          /\ t' = Append(t, i)
EmitRU ==
    \A ms \in {Members(t)} :
        PrintT(<<"CASE", ToJson([op |-> "ext.ru", L |-> L, NF |-> NF, members |-> ms,
                                 cc |-> [n \in 1..NC |-> RUContainsCell(ms, n - 1)],
                                 ic |-> [n \in 1..NC |-> RUIntersectsCell(ms, n - 1)],
                                 cp |-> [n \in 1..NLeaves |-> RUContainsPoint(ms, n - 1)],
                                 wit |-> RUWitness(ms)])>>)
\* model-level laws of the three-valued semantics: a union that contains a cell intersects it and
\* contains the centres of its leaves; adding a member never turns a "T" into something else;
\* answers that do not involve caps are never "U"
RULaws ==
    \A ms \in {Members(t)} :
        /\ \A x \in CellIds :
              /\ RUContainsCell(ms, x) = "T" => RUIntersectsCell(ms, x) = "T"
              /\ RUContainsCell(ms, x) = "T" => \A y \in LeavesI[x] : RUContainsPoint(ms, y) = "T"
              /\ RUIntersectsCell(ms, x) = "F" => \A y \in LeavesI[x] : RUContainsPoint(ms, y) # "T"
              /\ (\A n \in 1..Len(ms) : ms[n].k # "cap") => RUContainsCell(ms, x) # "U" /\ RUIntersectsCell(ms, x) # "U"
        /\ \A y \in RUWitness(ms) : RUContainsPoint(ms, y) = "T"
        /\ Len(ms) = 0 => \A x \in CellIds : RUContainsCell(ms, x) = "F" /\ RUIntersectsCell(ms, x) = "F"

\* ======================================================================= ShapeIndexRegion (cell sets)
DisjointI(i, j) == LeavesI[i] \cap LeavesI[j] = {}
Covers(c, X) == \A i \in X : LeavesI[i] \subseteq LeavesI[c]
\* "the smallest cell that covers" X (X non-empty, on one face)
Smallest(X) == CHOOSE c \in CellIds : Covers(c, X) /\ \A d \in CellIds : Covers(d, X) => LevelI[d] <= LevelI[c]
ChildrenI(c) == {Idx(Child(CellAt[c], k)) : k \in 0..3}
Within(X, c) == {i \in X : LeavesI[i] \subseteq LeavesI[c]}
Bound(X) ==
    LET faces == {FaceI(i) : i \in X}
    IN  IF X = {} THEN {}
        ELSE IF Cardinality(faces) >= 2 THEN {Smallest({i \in X : FaceI(i) = f}) : f \in faces}
        ELSE IF Cardinality(X) = 1 THEN X
        ELSE {Smallest(Within(X, c)) : c \in {d \in ChildrenI(Smallest(X)) : Within(X, d) # {}}}

InitSIR == t = <<>>
NextSIR ==
    /\ Len(t) < MaxSir
    /\ \E i \in SirPool :
          /\ (IF Len(t) = 0 THEN TRUE ELSE i > t[Len(t)])
          /\ \A n \in 1..Len(t) : DisjointI(i, t[n])
          /\ t' = Append(t, i)
EmitSIR ==
    PrintT(<<"CASE", ToJson([op |-> "ext.sir", L |-> L, NF |-> NF, cells |-> t, want |-> Bound(Rng(t))])>>)
\* the bound covers every index cell, its cells are pairwise disjoint, there are at most 4 of
\* them on one face and at most 6 in all, and no bound cell can be replaced by one of its children
SIRLaws ==
    \A X \in {Rng(t)} : \A bd \in {Bound(X)} :
        /\ \A i \in X : \E b \in bd : LeavesI[i] \subseteq LeavesI[b]
        /\ \A a \in bd, b \in bd : a # b => DisjointI(a, b)
        /\ Cardinality(bd) <= (IF Cardinality({FaceI(i) : i \in X}) >= 2 THEN 6 ELSE 4)
        /\ \A b \in bd : b \in X \/ Cardinality({c \in ChildrenI(b) : Within(X, c) # {}}) >= 2

\* ======================================================================= scenes of grid rectangles
SG == 2 ^ G
Rects == {<<f, x0, y0, x1, y1>> : f \in SFaces, x0 \in XS, y0 \in YS, x1 \in XS, y1 \in YS}
RectOK(r) == r[2] < r[4] /\ r[3] < r[5]
RectSeq == SetToSortSeq({r \in Rects : RectOK(r)},
                        LAMBDA a, b : \E k \in 1..5 : a[k] < b[k] /\ \A m \in 1..(k - 1) : a[m] = b[m])
RectCells(r) == {<<r[1], i, j>> : i \in r[2]..(r[4] - 1), j \in r[3]..(r[5] - 1)}
StrictlyInner(r) == r[2] > 0 /\ r[3] > 0 /\ r[4] < SG /\ r[5] < SG
InitScene == t = <<>>
NextScene ==
    /\ Len(t) < MaxRects
    /\ \E i \in 1..Len(RectSeq) :
          /\ (IF Len(t) = 0 THEN TRUE ELSE i > t[Len(t)])
          /\ t' = Append(t, i)
EmitScene ==
    Len(t) = 0 \/
    \A rs \in {[n \in 1..Len(t) |-> RectSeq[t[n]]]} :
        LET oneface == Cardinality({rs[n][1] : n \in 1..Len(rs)}) = 1 /\ \A n \in 1..Len(rs) : StrictlyInner(rs[n])
        IN  PrintT(<<"CASE", ToJson([op |-> "ext.sirscene", G |-> G, rects |-> rs,
                                     must |-> UNION {RectCells(rs[n]) : n \in 1..Len(rs)},
                                     maxn |-> IF oneface THEN 4 ELSE 6,
                                     \* shapes alternate between a vertex at every grid corner and 4 corners only
                                     dense |-> [n \in 1..Len(rs) |-> (t[n] + n) % 2 = 0]])>>)

Init == CASE Mode = "ru" -> InitRU [] Mode = "sir" -> InitSIR [] Mode = "scene" -> InitScene
Next == CASE Mode = "ru" -> NextRU [] Mode = "sir" -> NextSIR [] Mode = "scene" -> NextScene
Emit == CASE Mode = "ru" -> EmitRU [] Mode = "sir" -> EmitSIR [] Mode = "scene" -> EmitScene
Laws == CASE Mode = "ru" -> RULaws [] Mode = "sir" -> SIRLaws [] Mode = "scene" -> TRUE
=============================================================================
