-------------------------------- MODULE Grid --------------------------------
(***************************************************************************)
(* W2: the cell-grid (rectilinear) world.                                  *)
(*                                                                         *)
(* Geometry whose vertices are corners of the level-G cells of one cube    *)
(* face.  A vertex is <<i, j>> with i, j in 0..S (S = 2^G), a cell is      *)
(* <<i, j>> with i, j in 0..S-1 and occupies [i,i+1] x [j,j+1].  Cell      *)
(* edges are great-circle arcs (u = const / v = const planes), so a        *)
(* rectilinear loop on grid vertices IS the boundary of a union of cells   *)
(* and every question about it is decided by integer comparison.           *)
(*                                                                         *)
(* Finer coordinates: "quad" units are level-(G+2) cell widths: the grid   *)
(* vertex I sits at 4I, the centre of the level-(G+1) cell p at 2p+1.      *)
(***************************************************************************)
EXTENDS Integers, Sequences, FiniteSets, TLC

CONSTANT G
ASSUME G \in 1..6
Pow2T == <<1, 2, 4, 8, 16, 32, 64, 128, 256, 512>>
P2(k) == Pow2T[k + 1]
S == P2(G)

Abs(x) == IF x < 0 THEN -x ELSE x
Sgn(x) == IF x > 0 THEN 1 ELSE IF x < 0 THEN -1 ELSE 0
MinI(a, b) == IF a < b THEN a ELSE b
MaxI(a, b) == IF a > b THEN a ELSE b

RECURSIVE FlattenFrom(_, _)
FlattenFrom(ss, k) == IF k > Len(ss) THEN <<>> ELSE ss[k] \o FlattenFrom(ss, k + 1)
Flatten(ss) == FlattenFrom(ss, 1)
RevSeq(s) == [k \in 1..Len(s) |-> s[Len(s) + 1 - k]]
\* the same sequence as an explicit tuple (TLC evaluates a function constructor lazily, element
\* by element and again on every access)
RECURSIVE Tup(_, _)
Tup(s, n) == IF n = 0 THEN <<>> ELSE Append(Tup(s, n - 1), s[n])
Explicit(s) == Tup(s, Len(s))

(***************************************************************************)
(* Pieces: simple rectilinear regions given by parameters.                 *)
(*   rect  <<x0,y0,x1,y1>>        cells x0 <= i < x1, y0 <= j < y1         *)
(*   stair <<x0,y0,n>>            cells (i-x0) + (j-y0) < n, i>=x0, j>=y0  *)
(*   ell   <<x0,y0,x1,y1,cx,cy>>  the rect minus its corner i>=cx, j>=cy   *)
(***************************************************************************)
Rect(x0, y0, x1, y1) == [kind |-> "rect", p |-> <<x0, y0, x1, y1>>]
Stair(x0, y0, n) == [kind |-> "stair", p |-> <<x0, y0, n>>]
Ell(x0, y0, x1, y1, cx, cy) == [kind |-> "ell", p |-> <<x0, y0, x1, y1, cx, cy>>]

PIn(pc, i, j) ==
    CASE pc.kind = "rect" -> pc.p[1] <= i /\ i < pc.p[3] /\ pc.p[2] <= j /\ j < pc.p[4]
      [] pc.kind = "stair" -> i >= pc.p[1] /\ j >= pc.p[2] /\ (i - pc.p[1]) + (j - pc.p[2]) < pc.p[3]
      [] pc.kind = "ell" -> /\ pc.p[1] <= i /\ i < pc.p[3] /\ pc.p[2] <= j /\ j < pc.p[4]
                            /\ ~(i >= pc.p[5] /\ j >= pc.p[6])

\* bounding box <<x0,y0,x1,y1>> (vertex coordinates)
PBox(pc) ==
    IF pc.kind = "stair" THEN <<pc.p[1], pc.p[2], pc.p[1] + pc.p[3], pc.p[2] + pc.p[3]>>
    ELSE <<pc.p[1], pc.p[2], pc.p[3], pc.p[4]>>

PWellFormed(pc) ==
    LET b == PBox(pc)
    IN  /\ 0 <= b[1] /\ b[1] < b[3] /\ b[3] <= S /\ 0 <= b[2] /\ b[2] < b[4] /\ b[4] <= S
        /\ pc.kind = "ell" => b[1] < pc.p[5] /\ pc.p[5] < b[3] /\ b[2] < pc.p[6] /\ pc.p[6] < b[4]

PCells(pc) == LET b == PBox(pc)
              IN  {c \in (b[1]..(b[3] - 1)) \X (b[2]..(b[4] - 1)) : PIn(pc, c[1], c[2])}

\* corners, counter-clockwise (interior on the left)
PCorners(pc) ==
    CASE pc.kind = "rect" ->
            << <<pc.p[1], pc.p[2]>>, <<pc.p[3], pc.p[2]>>, <<pc.p[3], pc.p[4]>>, <<pc.p[1], pc.p[4]>> >>
      [] pc.kind = "ell" ->
            << <<pc.p[1], pc.p[2]>>, <<pc.p[3], pc.p[2]>>, <<pc.p[3], pc.p[6]>>,
               <<pc.p[5], pc.p[6]>>, <<pc.p[5], pc.p[4]>>, <<pc.p[1], pc.p[4]>> >>
      [] pc.kind = "stair" ->
            LET x0 == pc.p[1] y0 == pc.p[2] n == pc.p[3]
            IN  << <<x0, y0>>, <<x0 + n, y0>> >> \o
                [m \in 1..(2 * n) |->
                    LET k == (m + 1) \div 2
                    IN  IF m % 2 = 1 THEN <<x0 + n - k + 1, y0 + k>> ELSE <<x0 + n - k, y0 + k>>]

\* vertices of one side from corner c up to (not including) corner d, every `step` units
SidePts(c, d, step) ==
    LET len == Abs(d[1] - c[1]) + Abs(d[2] - c[2])
        dx == Sgn(d[1] - c[1])
        dy == Sgn(d[2] - c[2])
    IN  [m \in 1..((len + step - 1) \div step) |-> <<c[1] + (m - 1) * step * dx, c[2] + (m - 1) * step * dy>>]

\* the loop of a corner sequence with collinear grid vertices inserted along the sides
Densify(cs, step) ==
    Flatten([k \in 1..Len(cs) |-> SidePts(cs[k], cs[(k % Len(cs)) + 1], step)])

(***************************************************************************)
(* Regions: a laminar family of pieces; a cell belongs to the region iff   *)
(* an odd number of pieces contain it.  Pieces of even depth are shells    *)
(* (counter-clockwise loops), pieces of odd depth are holes (clockwise).   *)
(***************************************************************************)
RIn(pcs, i, j) == Cardinality({k \in 1..Len(pcs) : PIn(pcs[k], i, j)}) % 2 = 1

\* a together with every cell sharing a point with it lies in b (outside the face is outside b)
StrictlyInside(a, b) ==
    \A c \in PCells(a) : \A dx \in -1..1, dy \in -1..1 : PIn(b, c[1] + dx, c[2] + dy)
\* no common cell and no common boundary segment (corners may touch)
Separated(a, b) ==
    \A c \in PCells(a) : /\ ~PIn(b, c[1], c[2])
                         /\ ~PIn(b, c[1] + 1, c[2]) /\ ~PIn(b, c[1] - 1, c[2])
                         /\ ~PIn(b, c[1], c[2] + 1) /\ ~PIn(b, c[1], c[2] - 1)
\* ... and no common vertex either
FarApart(a, b) ==
    \A c \in PCells(a) : \A dx \in -1..1, dy \in -1..1 : ~PIn(b, c[1] + dx, c[2] + dy)

Depth(pcs, k) == Cardinality({m \in 1..Len(pcs) : m # k /\ StrictlyInside(pcs[k], pcs[m])})

RWellFormed(pcs) ==
    /\ \A k \in 1..Len(pcs) : PWellFormed(pcs[k])
    /\ \A a \in 1..Len(pcs), b \in 1..Len(pcs) :
          a < b => \/ StrictlyInside(pcs[a], pcs[b]) \/ StrictlyInside(pcs[b], pcs[a])
                   \/ Separated(pcs[a], pcs[b])

\* the oriented loops of the region (interior of the region on the left of every loop)
RLoops(pcs, step) ==
    Explicit([k \in 1..Len(pcs) |->
        LET l == Densify(PCorners(pcs[k]), step)
        IN  IF Depth(pcs, k) % 2 = 1 THEN Explicit(RevSeq(l)) ELSE l])

\* edges of a closed vertex sequence: <<a, b>> with a, b vertices
LoopEdges(l) == Explicit([k \in 1..Len(l) |-> <<l[k], l[(k % Len(l)) + 1]>>])
\* edges of an open vertex sequence (polyline)
PathEdges(l) == Explicit([k \in 1..(Len(l) - 1) |-> <<l[k], l[k + 1]>>])
\* edges of a point set
PointEdges(l) == Explicit([k \in 1..Len(l) |-> <<l[k], l[k]>>])

(***************************************************************************)
(* Theorems that tie the boundary sequences to the cell sets.              *)
(***************************************************************************)
\* closed, rectilinear, every edge has positive length
LoopRectilinear(l) ==
    /\ Len(l) >= 4
    /\ \A k \in 1..Len(l) :
          LET a == l[k] b == l[(k % Len(l)) + 1]
          IN  /\ (a[1] = b[1]) # (a[2] = b[2])
              /\ a[1] \in 0..S /\ a[2] \in 0..S
    /\ \A a \in 1..Len(l), b \in 1..Len(l) : a # b => l[a] # l[b]

\* twice the signed area (shoelace)
RECURSIVE Shoelace(_, _)
Shoelace(l, k) ==
    IF k > Len(l) THEN 0
    ELSE LET a == l[k] b == l[(k % Len(l)) + 1]
         IN  a[1] * b[2] - b[1] * a[2] + Shoelace(l, k + 1)
LoopArea2(l) == Shoelace(l, 1)

\* crossing parity: the number of horizontal boundary edges strictly above the centre of
\* cell (i,j) that span its column (the vertical ray from the cell centre)
RayParity(edges, i, j) ==
    Cardinality({k \in 1..Len(edges) :
        LET a == edges[k][1] b == edges[k][2]
        IN  a[2] = b[2] /\ a[2] > j /\ MinI(a[1], b[1]) <= i /\ i < MaxI(a[1], b[1])}) % 2 = 1

\* boundary sequences are closed, rectilinear, duplicate-free and correctly oriented: twice the
\* signed area is +2 |cells| for shells and -2 |cells| for holes
LoopTheorems(pcs, step) ==
    LET loops == RLoops(pcs, step)
    IN  /\ \A k \in 1..Len(loops) : LoopRectilinear(loops[k])
        /\ \A k \in 1..Len(loops) :
              LoopArea2(loops[k]) = (IF Depth(pcs, k) % 2 = 1 THEN -2 ELSE 2) * Cardinality(PCells(pcs[k]))
\* membership by integer comparison = parity of boundary crossings of a ray
ParityTheorem(pcs, step) ==
    LET loops == RLoops(pcs, step)
        edges == Flatten([k \in 1..Len(loops) |-> LoopEdges(loops[k])])
    IN  \A i \in 0..(S - 1), j \in 0..(S - 1) : RIn(pcs, i, j) <=> RayParity(edges, i, j)

(***************************************************************************)
(* Answers, as tables.  in(i,j) for cells outside the face is FALSE.       *)
(***************************************************************************)
InFace(i, j) == 0 <= i /\ i < S /\ 0 <= j /\ j < S
In(pcs, i, j) == InFace(i, j) /\ RIn(pcs, i, j)

\* membership matrix: InM[j+1][i+1] = 1 iff cell (i,j) is in the region.  A probe (the centre
\* of a finer cell) has the answer of the level-G cell that contains it.
InM(pcs) == Explicit([j \in 1..S |-> Explicit([i \in 1..S |-> IF RIn(pcs, i - 1, j - 1) THEN 1 ELSE 0])])
\* membership read from the matrix (cells outside the face are outside)
InT(m, i, j) == InFace(i, j) /\ m[j + 1][i + 1] = 1

\* grid vertex (I,J): 1 = strictly inside, 0 = strictly outside, 2 = on the boundary.
\* InOp(i,j) is the membership predicate of the region.
VClassG(InOp(_, _), I, J) ==
    LET n == Cardinality({c \in {<<I - 1, J - 1>>, <<I, J - 1>>, <<I - 1, J>>, <<I, J>>} : InOp(c[1], c[2])})
    IN  IF n = 4 THEN 1 ELSE IF n = 0 THEN 0 ELSE 2
VClass(pcs, I, J) == VClassG(LAMBDA i, j : In(pcs, i, j), I, J)
VClassM(pcs) == LET m == InM(pcs)
                IN  [J \in 1..(S + 1) |-> [I \in 1..(S + 1) |-> VClassG(LAMBDA i, j : InT(m, i, j), I - 1, J - 1)]]

\* Cells of level G + d (d in -1..1), coordinates (ci,cj) at that level.  In quad units the
\* cell occupies [lo, lo + w] with w = 8, 4, 2.
CellClassG(InOp(_, _), d, ci, cj) ==
    LET w == IF d = -1 THEN 8 ELSE IF d = 0 THEN 4 ELSE IF d = 1 THEN 2 ELSE 1   \* d = 2: level G+2
        x0 == ci * w  x1 == x0 + w
        y0 == cj * w  y1 == y0 + w
        \* level-G cells whose closed square meets the closed cell (4i <= x1 /\ 4i+4 >= x0) /
        \* whose interior overlaps it (4i < x1 /\ 4i+4 > x0); \div rounds towards minus infinity
        nbI == ((x0 - 1) \div 4)..(x1 \div 4)
        nbJ == ((y0 - 1) \div 4)..(y1 \div 4)
        cvI == (x0 \div 4)..((x1 - 1) \div 4)
        cvJ == (y0 \div 4)..((y1 - 1) \div 4)
        nb == {InOp(i, j) : i \in nbI, j \in nbJ}
        cv == {InOp(i, j) : i \in cvI, j \in cvJ}
    IN  IF Cardinality(nb) = 1
        THEN (IF cv = {TRUE} THEN 1 ELSE 0)       \* 1: inside, clear of the boundary; 0: disjoint
        ELSE IF cv = {TRUE} THEN 2                \* inside, touching the boundary
        ELSE IF cv = {FALSE} THEN 4               \* outside, touching the boundary
        ELSE 3                                    \* the boundary passes through the cell
CellClass(pcs, d, ci, cj) == CellClassG(LAMBDA i, j : In(pcs, i, j), d, ci, cj)
CellClassM(pcs, d) ==
    LET n == IF d = -1 THEN S \div 2 ELSE IF d = 0 THEN S ELSE 2 * S
        m == InM(pcs)
    IN  [cj \in 1..n |-> [ci \in 1..n |-> CellClassG(LAMBDA i, j : InT(m, i, j), d, ci - 1, cj - 1)]]

\* Cells deeper than level G+1 (down to leaf cells) are not tabulated.  A cell T below its
\* level-(G+1) ancestor A (closed T inside closed A, T inside one level-G cell) inherits from
\* the class k of A:  what ContainsCell / IntersectsCell must answer ("T"/"F"), or "U" when
\* it depends on where inside A the cell lies (whether it touches the boundary A touches).
DeepContains(k) == IF k = 1 THEN "T" ELSE IF k \in {0, 3, 4} THEN "F" ELSE "U"
DeepIntersects(k) == IF k \in {1, 2} THEN "T" ELSE IF k = 0 THEN "F" ELSE "U"
\* the rule is consistent with the exact classes one level further down (level G+2)
DeepRuleTheorem(pcs) ==
    \A qi \in 0..(4 * S - 1), qj \in 0..(4 * S - 1) :
        LET k == CellClass(pcs, 1, qi \div 2, qj \div 2)
            kq == CellClass(pcs, 2, qi, qj)
        IN  /\ kq # 3 /\ k # 3
            /\ DeepContains(k) = "T" => kq = 1
            /\ DeepContains(k) = "F" => kq \in {0, 4}
            /\ DeepIntersects(k) = "T" => kq \in {1, 2}
            /\ DeepIntersects(k) = "F" => kq = 0

\* ---- which cells an edge meets ----------------------------------------------------
AxisParallel(e) == e[1][1] = e[2][1] \/ e[1][2] = e[2][2]
UnitDiagonal(e) == Abs(e[1][1] - e[2][1]) = 1 /\ Abs(e[1][2] - e[2][2]) = 1

\* closed level-(G+2) cell (ci,cj) meets the closed axis-parallel (or degenerate) edge e
MeetsQuad(e, ci, cj) ==
    /\ ci <= 4 * MaxI(e[1][1], e[2][1]) /\ ci + 1 >= 4 * MinI(e[1][1], e[2][1])
    /\ cj <= 4 * MaxI(e[1][2], e[2][2]) /\ cj + 1 >= 4 * MinI(e[1][2], e[2][2])

\* "must" rectangles <<level, ilo, ihi, jlo, jhi>>: every cell of that level in the (inclusive)
\* range has a closed square that meets the edge.  Exact for axis-parallel edges at level G+2;
\* for a unit diagonal: the cell it lies in, and the cells around its two endpoints.
ClipQ(x) == MaxI(0, MinI(4 * S - 1, x))
Around(v) == <<G + 2, ClipQ(4 * v[1] - 1), ClipQ(4 * v[1]), ClipQ(4 * v[2] - 1), ClipQ(4 * v[2])>>
Met(e) ==
    IF AxisParallel(e)
    THEN << <<G + 2, ClipQ(4 * MinI(e[1][1], e[2][1]) - 1), ClipQ(4 * MaxI(e[1][1], e[2][1])),
                     ClipQ(4 * MinI(e[1][2], e[2][2]) - 1), ClipQ(4 * MaxI(e[1][2], e[2][2]))>> >>
    ELSE << <<G, MinI(e[1][1], e[2][1]), MinI(e[1][1], e[2][1]), MinI(e[1][2], e[2][2]), MinI(e[1][2], e[2][2])>>,
            Around(e[1]), Around(e[2]) >>

\* the local rules above agree with the edge-based definitions
\* (a vertex is on the boundary iff it lies on a boundary edge; a cell touches the boundary
\* iff its closed square meets a boundary edge)
OnEdge(e, I, J) ==
    /\ MinI(e[1][1], e[2][1]) <= I /\ I <= MaxI(e[1][1], e[2][1])
    /\ MinI(e[1][2], e[2][2]) <= J /\ J <= MaxI(e[1][2], e[2][2])
\* closed box [x0,x1] x [y0,y1] (quad units) meets the closed axis-parallel edge e
MeetsBox(e, x0, y0, x1, y1) ==
    /\ x0 <= 4 * MaxI(e[1][1], e[2][1]) /\ x1 >= 4 * MinI(e[1][1], e[2][1])
    /\ y0 <= 4 * MaxI(e[1][2], e[2][2]) /\ y1 >= 4 * MinI(e[1][2], e[2][2])
LocalRuleTheorems(pcs, step) ==
    LET loops == RLoops(pcs, step)
        edges == Flatten([k \in 1..Len(loops) |-> LoopEdges(loops[k])])
    IN  /\ \A I \in 0..S, J \in 0..S :
              (VClass(pcs, I, J) = 2) <=> (\E k \in 1..Len(edges) : OnEdge(edges[k], I, J))
        /\ \A d \in -1..1 :
              LET n == IF d = -1 THEN S \div 2 ELSE IF d = 0 THEN S ELSE 2 * S
                  w == IF d = -1 THEN 8 ELSE IF d = 0 THEN 4 ELSE 2
              IN  \A ci \in 0..(n - 1), cj \in 0..(n - 1) :
                      (CellClass(pcs, d, ci, cj) \in {2, 3, 4}) <=>
                          \E k \in 1..Len(edges) : MeetsBox(edges[k], ci * w, cj * w, ci * w + w, cj * w + w)
        \* the rectangle of level-(G+2) cells listed for an axis-parallel edge is exactly the set
        \* of cells whose closed square meets it
        /\ \A k \in 1..Len(edges) :
              LET r == Met(edges[k])[1]
              IN  \A ci \in MaxI(0, r[2] - 1)..MinI(4 * S - 1, r[3] + 1), cj \in MaxI(0, r[4] - 1)..MinI(4 * S - 1, r[5] + 1) :
                      MeetsQuad(edges[k], ci, cj) <=> (r[2] <= ci /\ ci <= r[3] /\ r[4] <= cj /\ cj <= r[5])

(***************************************************************************)
(* Query segments for CrossingEdgeQuery: axis-parallel segments between    *)
(* centres of level-(G+1) cells, <<ax, ay, bx, by>> in quad units (odd).   *)
(* They lie on u = const or v = const great circles, so crossings with     *)
(* grid edges are decided combinatorially.  Answer: "Y", "N", or "U"       *)
(* (a unit diagonal met inside its own cell: not decided by the model).    *)
(***************************************************************************)
Between(lo, x, hi) == lo < x /\ x < hi
CrossQ(q, e) ==
    LET ex0 == 4 * MinI(e[1][1], e[2][1])  ex1 == 4 * MaxI(e[1][1], e[2][1])
        ey0 == 4 * MinI(e[1][2], e[2][2])  ey1 == 4 * MaxI(e[1][2], e[2][2])
        qx0 == MinI(q[1], q[3])  qx1 == MaxI(q[1], q[3])
        qy0 == MinI(q[2], q[4])  qy1 == MaxI(q[2], q[4])
    IN  IF e[1] = e[2] \/ (q[1] = q[3] /\ q[2] = q[4]) THEN "N"
        ELSE IF AxisParallel(e)
        THEN IF q[1] = q[3]      \* vertical query: crosses horizontal edges only
             THEN (IF ey0 = ey1 /\ Between(ex0, q[1], ex1) /\ Between(qy0, ey0, qy1) THEN "Y" ELSE "N")
             ELSE (IF ex0 = ex1 /\ Between(ey0, q[2], ey1) /\ Between(qx0, ex0, qx1) THEN "Y" ELSE "N")
        ELSE \* unit diagonal inside the cell [ex0,ex1] x [ey0,ey1]
             IF q[1] = q[3]
             THEN (IF ~Between(ex0, q[1], ex1) \/ qy1 < ey0 \/ qy0 > ey1 THEN "N"
                   ELSE IF qy0 < ey0 /\ qy1 > ey1 THEN "Y" ELSE "U")
             ELSE (IF ~Between(ey0, q[2], ey1) \/ qx1 < ex0 \/ qx0 > ex1 THEN "N"
                   ELSE IF qx0 < ex0 /\ qx1 > ex1 THEN "Y" ELSE "U")

\* brute force over all edges of a shape: the 0-based edge numbers that certainly cross / are undecided
CrossingsY(q, edges) == {k - 1 : k \in {m \in 1..Len(edges) : CrossQ(q, edges[m]) = "Y"}}
CrossingsU(q, edges) == {k - 1 : k \in {m \in 1..Len(edges) : CrossQ(q, edges[m]) = "U"}}
=============================================================================
