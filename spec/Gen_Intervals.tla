--------------------------- MODULE Gen_Intervals ---------------------------
(***************************************************************************)
(* C19 generator: one state per operand (unary cases: every probe, every   *)
(* margin) and one state per ordered pair of operands (binary cases) of    *)
(* the families  s1 (s1.Interval), pp (s1 constructors from two points),   *)
(* r1 (r1.Interval), r2 (r2.Rect), rc (s2.Rect).                           *)
(* The invariants are the laws of the property for the specified           *)
(* operators; Emit prints the expected results for the replay.             *)
(***************************************************************************)
EXTENDS Intervals, SequencesExt, Json

CONSTANT Fams        \* subset of {"s1", "pp", "r1", "r2", "rc"}
CONSTANT NR          \* r2: grid positions even integers of -2NR..2NR
CONSTANT AIdxS1, AIdxRc, BIdxRc   \* index sets (first operands; rc also second operands); {} = all
CONSTANT XtSeed      \* seed of the off-grid endpoint offsets of family "xt" (passed through to the replay)
XtOffsets == 3       \* offset patterns per interval and nudge
CONSTANT RcMlK, RcMgK  \* margins tried for s2.Rect expansion (lat steps, lng steps), each + 100
RcMl == {k - 100 : k \in RcMlK}
RcMg == {k - 100 : k \in RcMgK}

Pick(S, Idx) == IF Idx = {} THEN S
                ELSE LET sq == SetToSeq(S) IN {sq[i] : i \in Idx \cap (1..Len(sq))}

\* ---- operand universes ---------------------------------------------------
R2Grid == {2*k : k \in -NR..NR}
R2Ivs == R2Grid \X R2Grid
R2Rects == {R \in R2Ivs \X R2Ivs : R2Valid(R)}
R2P == (-2*NR - 1)..(2*NR + 1)
R2Probes == R2P \X R2P
R2Margins == {<<0, 0>>, <<1, 1>>, <<2, 1>>, <<-1, 2>>, <<1, -2>>, <<-1, -1>>, <<-2, -2>>, <<3, 0>>, <<0, -1>>}

RcRects == {<<lat, lng>> : lat \in LatIntervals, lng \in SIntervals \ {SEmpty}} \cup {RcEmpty}
RcLatP == (-2*ML - 1)..(2*ML + 1)          \* +-(2ML+1): invalid latitude
RcProbes == RcLatP \X Q
RcValidProbe(p) == p[1] \in LatQ

VARIABLE t
\* Unary states are successors of NRoot root states (TLC computes and checks initial states
\* single-threaded; the roots only partition the work).
NRoot == 16
Unaries == UNION {
            IF "s1" \in Fams THEN {<<"s1", I>> : I \in Pick(SIntervals, AIdxS1)} ELSE {},
            IF "pp" \in Fams THEN {<<"pp", a>> : a \in Pos} ELSE {},
            IF "xt" \in Fams THEN {<<"xt", I>> : I \in SIntervals \ {SEmpty, SFull}} ELSE {},
            IF "r1" \in Fams THEN {<<"r1", I>> : I \in RIntervals} ELSE {},
            IF "r2" \in Fams THEN {<<"r2", R>> : R \in R2Rects} ELSE {},
            \* the empty and the full rectangle are always first operands
            IF "rc" \in Fams THEN {<<"rc", R>> : R \in Pick(RcRects, AIdxRc) \cup {RcEmpty, RcFull}} ELSE {} }
USeq == SetToSeq(Unaries)
Init == t \in {<<"root", r, 0, 0>> : r \in 1..NRoot}
Next == \/ /\ Len(t) = 4
           /\ t' \in {USeq[i] : i \in {j \in 1..Len(USeq) : j % NRoot = t[2] % NRoot}}
        \/ /\ Len(t) = 2
           /\ t' \in CASE t[1] = "s1" -> {<<"s1", t[2], J>> : J \in SIntervals}
                    [] t[1] = "pp" -> {<<"pp", t[2], b>> : b \in Pos}
                    [] t[1] = "xt" -> {<<"xt", t[2], <<nu, off>>>> : nu \in -3..3, off \in 1..XtOffsets}
                    [] t[1] = "r1" -> {<<"r1", t[2], J>> : J \in RIntervals}
                    [] t[1] = "r2" -> {<<"r2", t[2], S>> : S \in R2Rects}
                    [] t[1] = "rc" -> {<<"rc", t[2], S>> : S \in Pick(RcRects, BIdxRc)}

F == t[1]
A == t[2]
B == t[3]
Un == Len(t) = 2
Bin == Len(t) = 3
QSeq(f(_)) == [i \in 1..(4*M) |-> f(i - 2*M)]

(***************************************************************************)
(* model-level laws: s1                                                    *)
(***************************************************************************)
(***************************************************************************)
(* family "xt": expansion that reaches exactly all the way round, and      *)
(* shrinking that reaches exactly the centre.  The model interval is       *)
(* embedded with arbitrary off-grid endpoint offsets (|offset| < 0.3 step, *)
(* class preserved) and the margin is computed from the float length,      *)
(* nudged by nu ulps: the exact-tie class of SExpanded under rounding.     *)
(* Margins in half-steps: grow by 2M - SLen, shrink by SLen.               *)
(***************************************************************************)
XtGrow(I) == 2*M - SLen(I)
XtShrink(I) == SLen(I)
Dilate(S, r) == {q \in Q : \E x \in S : CircDist(q, x) <= r}
Erode(S, r) == {q \in Q : \A x \in Q : CircDist(q, x) <= r => x \in S}
ArcFrom(lo, hi) == {q \in Q : (q - 2*lo + 8*M) % (4*M) <= (2*hi - 2*lo + 8*M) % (4*M)}

S1Unary == F = "s1" /\ Un =>
    /\ SValid(A) /\ SInt(A) \subseteq SSet(A)
    /\ SValid(SComplement(A))
    /\ SSet(A) \cup SSet(SComplement(A)) = Q                      \* complement + original cover everything
    /\ SSet(SComplement(A)) = Q \ SInt(A)
    /\ SInt(A) \cap SInt(SComplement(A)) = {}
    /\ (A \notin {SEmpty, SFull} =>
            /\ SCenter(A) \in SSet(A)
            /\ CircDist(SCenter(A), 2*A[1]) = CircDist(SCenter(A), 2*A[2])
            /\ SSet(A) = ArcFrom(A[1], A[2])
            /\ SComplementCenter(A) \in SSet(SComplement(A))
            /\ (A[1] # A[2] => SComplementCenter(A) \notin SSet(A)))
    /\ \A m \in (-2*M)..(2*M) :
          LET e == SExpanded(A, m) IN
          /\ \A R \in e.res : SValid(R)
          /\ (m >= 0 => \A R \in e.res : SSet(A) \subseteq SSet(R))      \* expansion keeps every point
          /\ (m <= 0 => \A R \in e.res : SSet(R) \subseteq SSet(A))
          /\ (m >= 0 => \E R \in e.res : SSet(R) = Dilate(SSet(A), 2*m))
          /\ (m < 0 /\ A # SFull => \E R \in e.res : SSet(R) = Erode(SSet(A), -2*m))
          /\ (~e.tie => Cardinality(e.res) = 1)
    /\ \A q \in Q :
          /\ (A # SEmpty => SProject(A, q) # {} /\ SProject(A, q) \subseteq SSet(A)      \* projection lands inside
                            /\ (q \in SSet(A) => SProject(A, q) = {q})
                            /\ Cardinality(SProject(A, q)) <= 2)
          /\ \A R \in SAddPoint(A, q) : SValid(R) /\ q \in SSet(R) /\ SSet(A) \subseteq SSet(R)
          /\ (q \in SSet(A) => SAddPoint(A, q) = {A})

S1Binary == F = "s1" /\ Bin =>
    LET U == SUnion(A, B)
        X == SIntersection(A, B)
    IN
    /\ \A R \in U : SValid(R) /\ SSet(A) \cup SSet(B) \subseteq SSet(R)             \* union contains both
    /\ \A R \in X : /\ SValid(R)
                    /\ SSet(A) \cap SSet(B) \subseteq SSet(R)                       \* every common point
                    /\ SSet(R) \subseteq SSet(A) \cup SSet(B)                       \* no point of neither
    /\ Cardinality(U) <= 2 /\ Cardinality(X) <= 2
    /\ U = SUnion(B, A) /\ X = SIntersection(B, A)
    /\ (SContainsInterval(A, B) => U = {A} /\ X = {B})
    /\ (SIntersects(A, B) <=> X # {SEmpty})
    /\ SIntersects(A, B) = SIntersects(B, A)
    /\ (SHausdorff(A, B) = 0 <=> SContainsInterval(B, A))
    /\ SHausdorff(A, B) <= 2*M
    /\ (SInteriorIntersects(A, B) => SIntersects(A, B))
    /\ (SInteriorContainsInterval(A, B) => SContainsInterval(A, B))
    /\ (SContainsInterval(A, B) /\ SContainsInterval(B, A) => A = B)
    \* the closed-form tests of the code, transcribed, agree with the point-set definitions
    /\ (SContainsInterval(A, B) <=>
          IF SInverted(A) THEN (IF SInverted(B) THEN B[1] >= A[1] /\ B[2] <= A[2]
                                ELSE (B[1] >= A[1] \/ B[2] <= A[2]) /\ A # SEmpty)
          ELSE IF SInverted(B) THEN A = SFull \/ B = SEmpty
          ELSE B[1] >= A[1] /\ B[2] <= A[2])

\* growing by exactly the missing half-length covers the circle; shrinking by exactly the
\* half-length leaves the centre only: under a nudge of a few ulps the result is the full
\* interval / an interval missing a sliver, resp. empty / a sliver around the centre
XTLaws == F = "xt" /\ Un =>
    /\ Dilate(SSet(A), XtGrow(A)) = Q
    /\ (XtGrow(A) > 0 => Dilate(SSet(A), XtGrow(A) - 1) # Q)
    /\ (SLen(A) > 0 => Erode(SSet(A), XtShrink(A)) = {SCenter(A)})
    /\ (SLen(A) > 0 => Erode(SSet(A), XtShrink(A) + 1) = {})

PPLaws == F = "pp" /\ Bin =>
    /\ \A R \in SFromPointPair(A, B) :
          SValid(R) /\ 2*NormP(A) \in SSet(R) /\ 2*NormP(B) \in SSet(R) /\ SLen(R) <= M
    /\ LET R == SFromEndpoints(A, B) IN
          /\ SValid(R)
          /\ (R \notin {SEmpty, SFull} => SSet(R) = ArcFrom(NormP(A), NormP(B)))

(***************************************************************************)
(* model-level laws: r1, r2                                                *)
(***************************************************************************)
R1Unary == F = "r1" /\ Un =>
    /\ RInt(A) \subseteq RSet(A)
    /\ \A m \in -3..3 :
          /\ (m >= 0 => RSet(A) \subseteq RSet(RExpanded(A, m)))
          /\ (m <= 0 => RSet(RExpanded(A, m)) \subseteq RSet(A))
          /\ (~REmpty(A) /\ ~REmpty(RExpanded(A, m)) =>
                \A q \in LQ : q \in RSet(RExpanded(A, m)) <=>
                    IF m >= 0 THEN \E x \in RSet(A) : AbsI(q - x) <= m
                    ELSE (q - (-m) >= A[1] /\ q + (-m) <= A[2]))
    /\ \A q \in LQ :
          /\ q \in RSet(RAddPoint(A, q)) /\ RSet(A) \subseteq RSet(RAddPoint(A, q))
          /\ (~REmpty(A) => RClamp(A, q) \in RSet(A)
                            /\ \A x \in RSet(A) : AbsI(q - RClamp(A, q)) <= AbsI(q - x))

R1Binary == F = "r1" /\ Bin =>
    /\ RSet(A) \cup RSet(B) \subseteq RSet(RUnion(A, B))
    /\ RSet(RIntersection(A, B)) = RSet(A) \cap RSet(B)
    /\ (RContainsInterval(A, B) <=> (REmpty(B) \/ (A[1] <= B[1] /\ B[2] <= A[2])))
    /\ (RIntersects(A, B) <=> ~REmpty(RIntersection(A, B)))
    /\ (RHausdorff(A, B) = 0 <=> RContainsInterval(B, A))
    /\ (~REmpty(A) /\ ~REmpty(B) => RHausdorff(A, B) = Max2(0, Max2(A[2] - B[2], B[1] - A[1])))
    /\ (RInteriorIntersects(A, B) => RIntersects(A, B))

R2SetP(R) == {p \in R2Probes : p[1] \in RSet(R[1]) /\ p[2] \in RSet(R[2])}
R2IntP(R) == {p \in R2Probes : p[1] \in RInt(R[1]) /\ p[2] \in RInt(R[2])}
R2Unary == F = "r2" /\ Un =>
    /\ R2Valid(A)
    /\ \A m \in R2Margins :
          LET E == R2Expanded(A, m) IN
          /\ R2Valid(E)
          /\ (m[1] >= 0 /\ m[2] >= 0 => R2SetP(A) \subseteq R2SetP(E))
          /\ (m[1] <= 0 /\ m[2] <= 0 => R2SetP(E) \subseteq R2SetP(A))
    /\ \A p \in R2Probes :
          /\ R2Valid(R2AddPoint(A, p))
          /\ p \in R2SetP(R2AddPoint(A, p)) /\ R2SetP(A) \subseteq R2SetP(R2AddPoint(A, p))
          /\ (~R2Empty(A) => R2Clamp(A, p) \in R2SetP(A))
R2Binary == F = "r2" /\ Bin =>
    /\ R2Valid(R2Union(A, B)) /\ R2Valid(R2Intersection(A, B))
    /\ R2SetP(A) \cup R2SetP(B) \subseteq R2SetP(R2Union(A, B))
    /\ R2SetP(R2Intersection(A, B)) = R2SetP(A) \cap R2SetP(B)
    /\ (R2Contains(A, B) <=> R2SetP(B) \subseteq R2SetP(A))
    /\ (R2Intersects(A, B) <=> R2SetP(A) \cap R2SetP(B) # {})
    /\ (R2InteriorContains(A, B) <=> R2SetP(B) \subseteq R2IntP(A))
    /\ (R2InteriorIntersects(A, B) <=> R2IntP(A) \cap R2SetP(B) # {})
    /\ (R2Contains(A, B) <=> (RContainsInterval(A[1], B[1]) /\ RContainsInterval(A[2], B[2])))

(***************************************************************************)
(* model-level laws: s2.Rect                                               *)
(***************************************************************************)
RcValid(R) == /\ (R[1] = LatEmpty \/ (R[1][1] \in LatQ /\ R[1][2] \in LatQ /\ R[1][1] <= R[1][2]))
              /\ SValid(R[2])
              /\ ((R[1] = LatEmpty) <=> (R[2] = SEmpty))
RcUnary == F = "rc" /\ Un =>
    /\ RcValid(A)
    /\ LET P == RcPolarClosure(A) IN
          /\ RcValid(P) /\ RcSet(A) \subseteq RcSet(P)
          /\ \A p \in RcSet(A) : AbsI(p[1]) = 2*ML => \A g \in Q : <<p[1], g>> \in RcSet(P)
          /\ (RcSet(P) # RcSet(A) => \E p \in RcSet(A) : AbsI(p[1]) = 2*ML)
    /\ \A ml \in RcMl, mg \in RcMg :
          LET e == RcExpanded(A, ml, mg) IN
          \A R \in e.res :
              /\ RcValid(R)
              /\ (ml >= 0 /\ mg >= 0 => RcSet(A) \subseteq RcSet(R))
              /\ (ml <= 0 /\ mg <= 0 => RcSet(R) \subseteq RcSet(A))
    /\ \A p \in RcProbes : RcValidProbe(p) /\ p[2] % 2 = 0 =>
          /\ \A q \in QReps(p[2]) : NormQ(q) = p[2]
          /\ RcValid(RcFromLatLng(p)) /\ p \in RcSet(RcFromLatLng(p))
          /\ RcAddPoint(RcEmpty, p) = {RcFromLatLng(p)}
    /\ \A p \in RcProbes : RcValidProbe(p) =>
          \A R \in RcAddPoint(A, p) : RcValid(R) /\ p \in RcSet(R) /\ RcSet(A) \subseteq RcSet(R)
RcBinary == F = "rc" /\ Bin =>
    /\ \A R \in RcUnion(A, B) : RcValid(R) /\ RcSet(A) \cup RcSet(B) \subseteq RcSet(R)
    /\ \A R \in RcIntersection(A, B) :
          /\ RcValid(R)
          /\ RcSet(A) \cap RcSet(B) \subseteq RcSet(R)
          /\ RcSet(R) \subseteq RcSet(A) \cup RcSet(B)
    /\ (RcIntersects(A, B) <=> RcIntersection(A, B) # {RcEmpty})
    /\ (RcContains(A, B) <=> (RcIsEmpty(B) \/ (~RcIsEmpty(A) /\ LatSet(B[1]) \subseteq LatSet(A[1])
                                               /\ SContainsInterval(A[2], B[2]))))

(***************************************************************************)
(* cases for the replay                                                    *)
(***************************************************************************)
S1ExpSeq(I) == [i \in 1..(4*M + 1) |->
                   LET m == i - 2*M - 1 e == SExpanded(I, m)
                   IN  [m |-> m, res |-> e.res, tie |-> e.tie]]
CaseS1U ==
    [op |-> "c19s1u", M |-> M, i |-> A,
     mem |-> QSeq(LAMBDA q : q \in SSet(A)),
     int |-> QSeq(LAMBDA q : q \in SInt(A)),
     len |-> SLen(A), comp |-> SComplement(A),
     center |-> IF A \in {SEmpty, SFull} THEN 0 ELSE SCenter(A),
     cc |-> IF A \in {SEmpty, SFull} THEN 0 ELSE SComplementCenter(A),
     exp |-> S1ExpSeq(A),
     proj |-> IF A = SEmpty THEN <<>> ELSE QSeq(LAMBDA q : SProject(A, q)),
     addp |-> QSeq(LAMBDA q : IF q % 2 = 0 THEN SAddPoint(A, q) ELSE {})]
CaseS1B ==
    [op |-> "c19s1b", M |-> M, i |-> A, j |-> B,
     ci |-> SContainsInterval(A, B), ici |-> SInteriorContainsInterval(A, B),
     x |-> SIntersects(A, B), ix |-> SInteriorIntersects(A, B),
     un |-> SUnion(A, B), is |-> SIntersection(A, B), hd |-> SHausdorff(A, B)]
CasePP ==
    [op |-> "c19pp", M |-> M, a |-> A, b |-> B,
     pp |-> SFromPointPair(A, B), ep |-> SFromEndpoints(A, B), wsum |-> WrapP(A + B)]

LQSeq(f(_)) == [i \in 1..(4*NL + 7) |-> f(i - 2*NL - 4)]
CaseR1U ==
    [op |-> "c19r1u", NL |-> NL, i |-> A,
     mem |-> LQSeq(LAMBDA q : q \in RSet(A)),
     int |-> LQSeq(LAMBDA q : q \in RInt(A)),
     exp |-> [k \in 1..9 |-> [m |-> k - 5, res |-> RExpanded(A, k - 5)]],
     addp |-> LQSeq(LAMBDA q : RAddPoint(A, q)),
     clamp |-> IF REmpty(A) THEN <<>> ELSE LQSeq(LAMBDA q : RClamp(A, q))]
CaseR1B ==
    [op |-> "c19r1b", NL |-> NL, i |-> A, j |-> B,
     ci |-> RContainsInterval(A, B), ici |-> RInteriorContainsInterval(A, B),
     x |-> RIntersects(A, B), ix |-> RInteriorIntersects(A, B),
     un |-> RUnion(A, B), is |-> RIntersection(A, B), eq |-> REqual(A, B), hd |-> RHausdorff(A, B)]

R2PSeq == SetToSeq(R2Probes)
R2MSeq == SetToSeq(R2Margins)
CaseR2U ==
    [op |-> "c19r2u", NR |-> NR, r |-> A,
     pts |-> [k \in 1..Len(R2PSeq) |->
                LET p == R2PSeq[k] IN
                [p |-> p, mem |-> p \in R2SetP(A), int |-> p \in R2IntP(A),
                 addp |-> R2AddPoint(A, p),
                 clamp |-> IF R2Empty(A) THEN p ELSE R2Clamp(A, p)]],
     exp |-> [k \in 1..Len(R2MSeq) |-> [m |-> R2MSeq[k], res |-> R2Expanded(A, R2MSeq[k])]]]
CaseR2B ==
    [op |-> "c19r2b", NR |-> NR, r |-> A, s |-> B,
     c |-> R2Contains(A, B), ic |-> R2InteriorContains(A, B),
     x |-> R2Intersects(A, B), ix |-> R2InteriorIntersects(A, B),
     un |-> R2Union(A, B), is |-> R2Intersection(A, B)]

RcPSeq == SetToSeq(RcProbes)
RcMSeq == SetToSeq(RcMl \X RcMg)
CaseRcU ==
    [op |-> "c19rcu", M |-> M, ML |-> ML, r |-> A,
     polar |-> RcPolarClosure(A),
     pts |-> [k \in 1..Len(RcPSeq) |->
                LET p == RcPSeq[k] IN
                [p |-> p, mem |-> p \in RcSet(A), v |-> RcValidProbe(p), reps |-> QReps(p[2]),
                 pr |-> IF RcValidProbe(p) /\ p[2] % 2 = 0 THEN RcFromLatLng(p) ELSE RcEmpty,
                 addp |-> IF ~RcValidProbe(p) THEN {A} ELSE IF p[2] % 2 = 0 THEN RcAddPoint(A, p) ELSE {}]],
     exp |-> [k \in 1..Len(RcMSeq) |->
                LET e == RcExpanded(A, RcMSeq[k][1], RcMSeq[k][2])
                IN  [ml |-> RcMSeq[k][1], mg |-> RcMSeq[k][2], res |-> e.res, tie |-> e.tie]]]
CaseRcB ==
    [op |-> "c19rcb", M |-> M, ML |-> ML, r |-> A, s |-> B,
     c |-> RcContains(A, B), x |-> RcIntersects(A, B),
     un |-> RcUnion(A, B), is |-> RcIntersection(A, B)]

Emit ==
    PrintT(<<"CASE", ToJson(
        CASE F = "root" -> [op |-> "c19nop"]
          [] F = "s1" /\ Un -> CaseS1U [] F = "s1" /\ Bin -> CaseS1B
          [] F = "pp" /\ Un -> [op |-> "c19nop"] [] F = "pp" /\ Bin -> CasePP
          [] F = "xt" /\ Un -> [op |-> "c19nop"]
          [] F = "xt" /\ Bin -> [op |-> "c19xt", M |-> M, i |-> A, nu |-> B[1], off |-> B[2], seed |-> XtSeed,
                                 growq |-> XtGrow(A), shrinkq |-> XtShrink(A), center |-> SCenter(A)]
          [] F = "r1" /\ Un -> CaseR1U [] F = "r1" /\ Bin -> CaseR1B
          [] F = "r2" /\ Un -> CaseR2U [] F = "r2" /\ Bin -> CaseR2B
          [] F = "rc" /\ Un -> CaseRcU [] F = "rc" /\ Bin -> CaseRcB)>>)
=============================================================================
