----------------------------- MODULE CellUnions -----------------------------
(***************************************************************************)
(* C11 (world W3): cell unions as sets of leaf cells.                      *)
(*                                                                         *)
(* A cell is <<face, path>>, path \in Seq(0..3) of length 0..L.  The model *)
(* has NF root cells ("faces": real cube faces under the top embedding,    *)
(* consecutive-or-not cells of level 30-L under a deep embedding) laid out *)
(* one after the other on the Hilbert curve, so a leaf is an integer in    *)
(* 0..NF*4^L-1 and a cell of level l with path number k on face f covers   *)
(* the leaf interval [f*4^L + k*4^(L-l), f*4^L + (k+1)*4^(L-l)).           *)
(*                                                                         *)
(* Everything S2 promises about CellUnion is a statement about these leaf  *)
(* sets:  Normalize = Canon(leaves), union/intersection/difference = Canon *)
(* of the set operation, Contains/Intersects = subset / non-disjointness,  *)
(* LeafCellsCovered = cardinality, CellUnionFromRange = Canon(interval),   *)
(* Denormalize = same leaves, prescribed levels.                           *)
(*                                                                         *)
(* The wire form of a cell is its index Idx(c) (face-major, then level,    *)
(* then path number); the harness decodes it with the same formula.        *)
(***************************************************************************)
EXTENDS Naturals, Sequences, FiniteSets, SequencesExt, TLC

CONSTANT L       \* depth of the model tree (model leaves have level L)
CONSTANT NF      \* number of root cells

ASSUME L \in 0..5 /\ NF \in 1..6

Pow4(n) == 4^n
FaceLeaves == Pow4(L)                 \* leaves per root
NLeaves == NF * FaceLeaves
AllLeaves == 0..(NLeaves - 1)
CPF == (Pow4(L + 1) - 1) \div 3       \* cells per root: 1 + 4 + ... + 4^L
NC == NF * CPF                        \* number of cells

Paths(l) == [1..l -> 0..3]
Cells == {<<f, p>> : f \in 0..(NF - 1), p \in UNION {Paths(l) : l \in 0..L}}

Face(c) == c[1]
Path(c) == c[2]
Level(c) == Len(c[2])

RECURSIVE PathNum(_)
PathNum(p) == IF Len(p) = 0 THEN 0 ELSE 4 * PathNum(SubSeq(p, 1, Len(p) - 1)) + p[Len(p)]

Size(c) == Pow4(L - Level(c))                                   \* leaves covered
Lo(c) == Face(c) * FaceLeaves + PathNum(Path(c)) * Size(c)      \* first leaf
Hi(c) == Lo(c) + Size(c)                                        \* one past the last leaf
Leaves(c) == Lo(c)..(Hi(c) - 1)

Parent(c) == <<Face(c), SubSeq(Path(c), 1, Level(c) - 1)>>      \* Level(c) > 0
Child(c, k) == <<Face(c), Append(Path(c), k)>>                  \* Level(c) < L
IsRoot(c) == Level(c) = 0

\* The order of real cell ids: id = 2*RangeMin-leaf-index + lsb, in model leaf units.
IdKey(c) == 2 * Lo(c) + Size(c)

\* ---- wire encoding ------------------------------------------------------
Idx(c) == Face(c) * CPF + (Pow4(Level(c)) - 1) \div 3 + PathNum(Path(c))
CellIds == 0..(NC - 1)
\* cached tables (zero-arity definitions are evaluated once by TLC)
CellAt == [i \in CellIds |-> CHOOSE c \in Cells : Idx(c) = i]
LoI == [i \in CellIds |-> Lo(CellAt[i])]
HiI == [i \in CellIds |-> Hi(CellAt[i])]
LevelI == [i \in CellIds |-> Level(CellAt[i])]
KeyI == [i \in CellIds |-> IdKey(CellAt[i])]
LeavesI == [i \in CellIds |-> Leaves(CellAt[i])]
ParentI == [i \in CellIds |-> IF LevelI[i] = 0 THEN i ELSE Idx(Parent(CellAt[i]))]
IsRootI == [i \in CellIds |-> LevelI[i] = 0]

ASSUME IdxBijective == Cardinality(Cells) = NC /\ \A c \in Cells : Idx(c) \in CellIds

\* ---- leaf sets -----------------------------------------------------------
\* s: a set or sequence (multiset) of cell indices
Rng(s) == {s[i] : i \in DOMAIN s}
LeafSetOf(ids) == UNION {LeavesI[i] : i \in ids}
LeafSet(seq) == LeafSetOf(Rng(seq))

\* The canonical form of a leaf set: the maximal cells contained in it.  They are
\* pairwise disjoint, cover S exactly, and no four of them are siblings (their
\* parent would be contained in S, so they would not be maximal).
CanonSet(S) == {i \in CellIds : LeavesI[i] \subseteq S /\ (IsRootI[i] \/ ~(LeavesI[ParentI[i]] \subseteq S))}
Canon(S) == SetToSortSeq(CanonSet(S), LAMBDA a, b : LoI[a] < LoI[b])

\* ---- predicates on sequences of cells (as the code sees them) --------------
SortedById(seq) == SortSeq(seq, LAMBDA a, b : KeyI[a] < KeyI[b])
IsValidSeq(seq) == \A i \in 2..Len(seq) : HiI[seq[i - 1]] <= LoI[seq[i]]
HasSiblingGroup(seq) ==
    \E p \in CellIds : LevelI[p] < L /\
        \A k \in 0..3 : Idx(Child(CellAt[p], k)) \in Rng(seq)
IsNormalizedSeq(seq) == IsValidSeq(seq) /\ ~HasSiblingGroup(seq)

\* ---- the algebra -----------------------------------------------------------
Normalize(seq) == Canon(LeafSet(seq))
UnionOf(a, b) == Canon(LeafSet(a) \cup LeafSet(b))
InterOf(a, b) == Canon(LeafSet(a) \cap LeafSet(b))
DiffOf(a, b) == Canon(LeafSet(a) \ LeafSet(b))
ContainsU(a, b) == LeafSet(b) \subseteq LeafSet(a)
IntersectsU(a, b) == LeafSet(a) \cap LeafSet(b) # {}
ContainsC(a, i) == LeavesI[i] \subseteq LeafSet(a)
IntersectsC(a, i) == LeavesI[i] \cap LeafSet(a) # {}
InterCell(a, i) == Canon(LeafSet(a) \cap LeavesI[i])
LeafCount(a) == Cardinality(LeafSet(a))

\* ---- range tiling ------------------------------------------------------------
\* CellUnionFromRange(begin, end) for leaves lo <= hi (hi may be NLeaves = "End").
Tiling(lo, hi) == Canon(lo..(hi - 1))
\* the greedy construction the documentation describes: repeatedly the largest cell
\* that starts at the current position and ends at or before hi
BiggestFrom(lo, hi) ==
    CHOOSE i \in CellIds : /\ LoI[i] = lo /\ HiI[i] <= hi
                           /\ \A j \in CellIds : (LoI[j] = lo /\ HiI[j] <= hi) => LevelI[i] <= LevelI[j]
RECURSIVE Greedy(_, _)
Greedy(lo, hi) == IF lo >= hi THEN <<>> ELSE LET i == BiggestFrom(lo, hi) IN <<i>> \o Greedy(HiI[i], hi)
\* MaxTile(c, limit) for a leaf limit position hi (returns -1 for "limit itself")
MaxTile(i, hi) == IF LoI[i] >= hi THEN -1 ELSE BiggestFrom(LoI[i], hi)

\* ---- Denormalize ---------------------------------------------------------------
\* Levels are real levels: a model cell of level l has real level off + l (off = 0
\* under the top embedding, 30 - L under a deep one), real leaves have level maxLev = 30.  The documented rule: replace the cell by descendants
\* of the smallest level n >= max(level, minLevel) with (n - minLevel) a multiple
\* of levelMod, or of level maxLev if there is none.
DenormLevel(lev, minLevel, levelMod, maxLev) ==
    LET base == IF lev < minLevel THEN minLevel ELSE lev
        cands == {n \in base..maxLev : (n - minLevel) % levelMod = 0}
    IN  IF cands = {} THEN maxLev ELSE CHOOSE n \in cands : \A m \in cands : n <= m
\* the arithmetic of cellunion.go (equal to the rule for levelMod in 1..3 because 30 % levelMod = 0)
DenormLevelCode(lev, minLevel, levelMod, maxLev) ==
    LET base == IF lev < minLevel THEN minLevel ELSE lev
        n == IF levelMod > 1 THEN base + ((maxLev - (base - minLevel)) % levelMod) ELSE base
    IN  IF n > maxLev THEN maxLev ELSE n
ASSUME DenormArithmetic ==
    \A lev \in 0..30, mn \in 0..30, md \in 1..3 :
        DenormLevel(lev, mn, md, 30) = DenormLevelCode(lev, mn, md, 30)

DenormLevels(seq, minLevel, levelMod, off, maxLev) ==
    [k \in 1..Len(seq) |-> DenormLevel(off + LevelI[seq[k]], minLevel, levelMod, maxLev)]
\* descendants of cell i at model level n, in curve order
DescAt(i, n) == SetToSortSeq({j \in CellIds : LevelI[j] = n /\ LeavesI[j] \subseteq LeavesI[i]},
                             LAMBDA a, b : LoI[a] < LoI[b])
RECURSIVE Concat(_)
Concat(ss) == IF Len(ss) = 0 THEN <<>> ELSE Head(ss) \o Concat(Tail(ss))
\* the denormalized union inside the model (deep embedding: off + L = real leaf level)
Denorm(seq, minLevel, levelMod, off) ==
    LET lv == DenormLevels(seq, minLevel, levelMod, off, off + L)
    IN  Concat([k \in 1..Len(seq) |-> DescAt(seq[k], lv[k] - off)])

\* ---- multi-way intersection (s2intersect.Find) ------------------------------------
\* us: sequence of unions (sequences of cell indices).  For every leaf the set of
\* unions covering it; every index set of size >= 2 that occurs gets the canonical
\* form of its leaves.  The regions are disjoint by construction.
Owners(us, x) == {k \in 1..Len(us) : x \in LeafSet(us[k])}
FindSets(us) == {S \in {Owners(us, x) : x \in AllLeaves} : Cardinality(S) >= 2}
\* (the leaf sets and owner sets are computed once per call: Find is used with up to 24 unions)
Find(us) == LET ls == [k \in 1..Len(us) |-> LeafSet(us[k])]
                own == [x \in AllLeaves |-> {k \in 1..Len(us) : x \in ls[k]}]
                sets == {S \in {own[x] : x \in AllLeaves} : Cardinality(S) >= 2}
                ss == SetToSortSeq(sets, LAMBDA A, B :
                          \E k \in 1..Len(us) : /\ (k \in A) /\ ~(k \in B)
                                                /\ \A m \in 1..(k - 1) : (m \in A) <=> (m \in B))
            IN  [n \in 1..Len(ss) |->
                    [idx |-> SetToSortSeq({k - 1 : k \in ss[n]}, <),
                     cells |-> Canon({x \in AllLeaves : own[x] = ss[n]})]]

\* ---- model-level theorems about the normal form (checked per generated case) --------
\* Canon covers exactly S, is sorted, pairwise disjoint, sibling-merged and minimal.
CanonLaws(S) ==
    LET cs == Canon(S)
    IN  /\ LeafSet(cs) = S
        /\ IsNormalizedSeq(cs)
        /\ SortedById(cs) = cs
        \* uniqueness: any valid sibling-free sequence with the same leaves is cs
        /\ \A i \in CellIds : (LeavesI[i] \subseteq S) => \E j \in Rng(cs) : LeavesI[i] \subseteq LeavesI[j]
TilingLaws(lo, hi) ==
    /\ Greedy(lo, hi) = Tiling(lo, hi)
    /\ LeafSet(Tiling(lo, hi)) = lo..(hi - 1)
DenormLaws(seq, minLevel, levelMod) ==
    LET off == 30 - L
        d == Denorm(seq, minLevel, levelMod, off)
    IN  /\ LeafSet(d) = LeafSet(seq)
        /\ \A k \in 1..Len(d) :
              LET n == off + LevelI[d[k]]
              IN  n = 30 \/ (n >= minLevel /\ (n - minLevel) % levelMod = 0)
        /\ (IsValidSeq(seq) => IsValidSeq(d))
=============================================================================
