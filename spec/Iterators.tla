----------------------------- MODULE Iterators -----------------------------
(***************************************************************************)
(* EXT (C06, C08): two small sequential machines of golang/geo that no     *)
(* other module describes.                                                 *)
(*                                                                         *)
(* 1. s2/shapeutil_edge_iterator.go  EdgeIterator over a ShapeIndex.       *)
(*    Documented meaning: "an iterator that advances through all edges in  *)
(*    an ShapeIndex"; Next "positions the iterator at the next index       *)
(*    edge"; Done "reports if the iterator is positioned at or after the   *)
(*    last index edge"; ShapeIndex.Add "returns the assigned ID", ids are  *)
(*    "not reused when shapes are removed"; Shape(id) is "nil if the       *)
(*    shape has been removed from the index".                              *)
(*    The index is a sequence of slots (one per id ever handed out since   *)
(*    the last Reset): a live shape of some kind with nv vertices, or the  *)
(*    nil slot a removed shape leaves behind.  The iterator is the machine *)
(*    (sid, eid) of the implementation: it skips slots without edges.      *)
(*    What it has to do is stated separately and declaratively: PairSeq is *)
(*    the sequence of all (shape id, edge id) pairs of live shapes in      *)
(*    lexicographic order; the invariant IterEnumerates says that after k  *)
(*    calls of Next the machine is at PairSeq[k+1], and Done exactly when  *)
(*    k = Len(PairSeq).  So "each edge exactly once, in order, Done        *)
(*    exactly at the end" is a theorem checked by TLC on every reachable   *)
(*    state, and the behaviours printed for the replay carry the position  *)
(*    after every call.                                                    *)
(*                                                                         *)
(* 2. s2/query_entry.go  queryQueue, the priority queue of the distance    *)
(*    queries: push / pop / size / reset over entries (distance, cell id). *)
(*    "sorted in increasing order of distance from the target"; the        *)
(*    distance flavour decides what increasing means: minDistance.less is  *)
(*    < on chord angles, maxDistance.less is > ("To get minimum values,    *)
(*    this would be a less than type operation. For maximum, this would be *)
(*    a greater than type operation").  The model is a bag of (key, id)    *)
(*    entries (ids are the push numbers, so the bag is a set); pop may     *)
(*    return any entry that no other entry precedes in the flavour's       *)
(*    order.  Ties make the machine nondeterministic: every branch is a    *)
(*    behaviour, each pop step carries the whole admissible set, and the   *)
(*    replay leaves a branch (without a verdict) when the real queue took  *)
(*    another admissible entry - that choice is another behaviour of the   *)
(*    same exhaustive run.  Every printed behaviour ends with the expected *)
(*    drain: the keys of the remaining entries in pop order.               *)
(*    Keys are ranks into the table of chord angles                        *)
(*       0: negative (-1)  1: 0  2: 1/4  3: 1  4: 2  5: 4 (180 deg)  6: +Inf *)
(*    (order-preserving embedding done by the harness).                    *)
(***************************************************************************)
EXTENDS Integers, Sequences, FiniteSets, TLC, Json

CONSTANTS Machines,    \* subset of {"iter", "queue", "less"}: the machines explored in this run
          Kinds,       \* iter: shape kinds handed to Add ("pv" PointVector, "pl" LaxPolyline, "ll" LaxLoop)
          MaxV,        \* iter: shapes have 0..MaxV vertices
          MaxMut,      \* iter: bound on the number of index mutations (Add, Remove, Build, Reset) in a behaviour
          MaxIters,    \* iter: number of complete iterations in a behaviour
          Keys,        \* queue: ranks that may be pushed
          MaxOps,      \* queue: number of calls in a behaviour
          Flavours     \* queue: subset of {"min", "max"}

\* ---------------------------------------------------------------- shapes
Nil == [k |-> "nil", nv |-> 0]
MaxI(a, b) == IF a > b THEN a ELSE b
\* number of edges of a shape (the Shape interface of the three kinds)
Edges(s) ==
    CASE s.k = "nil" -> 0
      [] s.k = "pv"  -> s.nv                      \* one degenerate edge per point
      [] s.k = "pl"  -> MaxI(0, s.nv - 1)          \* open chain
      [] s.k = "ll"  -> s.nv                      \* closed chain
\* vertex numbers of the endpoints of edge e
Ends(s, e) ==
    CASE s.k = "pv" -> <<e, e>>
      [] s.k = "pl" -> <<e, e + 1>>
      [] s.k = "ll" -> <<e, (e + 1) % s.nv>>
Live(s) == s.k # "nil"

\* the edges of an index in the order an iteration has to produce them
RECURSIVE PairsFrom(_, _)
PairsFrom(ix, s) ==
    IF s > Len(ix) THEN <<>>
    ELSE [e \in 1..Edges(ix[s]) |-> <<s - 1, e - 1>>] \o PairsFrom(ix, s + 1)
PairSeq(ix) == PairsFrom(ix, 1)
RECURSIVE SumEdges(_, _)
SumEdges(ix, s) == IF s > Len(ix) THEN 0 ELSE Edges(ix[s]) + SumEdges(ix, s + 1)
LiveCount(ix) == Cardinality({s \in 1..Len(ix) : Live(ix[s])})

\* ---------------------------------------------------------------- state
VARIABLES mach,    \* which machine this behaviour drives
          ix,      \* iter: the slots of the index
          fresh,   \* iter: no update is pending (Build has nothing to do)
          it,      \* iter: the iterator: [on, sid, eid, k, past] (k = number of Next calls so far)
          nmut, niter, dirty,
          fl,      \* queue: flavour
          q,       \* queue: the entries <<key, id>>
          nid,     \* queue: next entry id
          h,       \* history
          pr       \* the behaviour has been printed
vars == <<mach, ix, fresh, it, nmut, niter, dirty, fl, q, nid, h, pr>>

NoIter == [on |-> FALSE, sid |-> 0, eid |-> 0, k |-> 0, past |-> FALSE]

Init ==
    /\ mach \in Machines
    /\ ix = <<>> /\ fresh = TRUE /\ it = NoIter /\ nmut = 0 /\ niter = 0 /\ dirty = TRUE
    /\ fl \in (IF mach = "iter" THEN {"min"} ELSE Flavours)
    /\ q = {} /\ nid = 0 /\ h = <<>> /\ pr = FALSE

\* ================================================================ EdgeIterator
\* the implementation's stepping rule: the first slot at or after s that has an edge,
\* or the number of slots (= the number of shape ids)
RECURSIVE Skip(_, _)
Skip(x, s) == IF s >= Len(x) THEN Len(x) ELSE IF Edges(x[s + 1]) > 0 THEN s ELSE Skip(x, s + 1)
Start(x) == <<Skip(x, 0), 0>>
Step(x, sid, eid) == IF eid + 1 < Edges(x[sid + 1]) THEN <<sid, eid + 1>> ELSE <<Skip(x, sid + 1), 0>>
AtEnd(x, sid) == sid >= Len(x)

Obs(x, sid, eid) ==
    IF AtEnd(x, sid) THEN [done |-> TRUE, sid |-> -1, eid |-> -1, ends |-> <<>>]
    ELSE [done |-> FALSE, sid |-> sid, eid |-> eid, ends |-> Ends(x[sid + 1], eid)]
IndexObs(x) == [len |-> LiveCount(x), ne |-> SumEdges(x, 1), ids |-> Len(x)]

Mutating == mach = "iter" /\ ~it.on /\ nmut < MaxMut /\ niter < MaxIters
Add(kind, nv) ==
    /\ Mutating
    /\ ix' = Append(ix, [k |-> kind, nv |-> nv])
    /\ fresh' = FALSE /\ nmut' = nmut + 1 /\ dirty' = TRUE
    /\ h' = Append(h, [a |-> "Add", k |-> kind, nv |-> nv, r |-> Len(ix), ix |-> IndexObs(ix')])
    /\ UNCHANGED <<mach, it, niter, fl, q, nid, pr>>
Remove(s) ==
    /\ Mutating /\ Live(ix[s + 1])
    /\ ix' = [ix EXCEPT ![s + 1] = Nil]
    /\ fresh' = FALSE /\ nmut' = nmut + 1 /\ dirty' = TRUE
    /\ h' = Append(h, [a |-> "Remove", r |-> s, ix |-> IndexObs(ix')])
    /\ UNCHANGED <<mach, it, niter, fl, q, nid, pr>>
Build ==
    /\ Mutating /\ ~fresh
    /\ fresh' = TRUE /\ nmut' = nmut + 1 /\ dirty' = TRUE
    /\ h' = Append(h, [a |-> "Build", ix |-> IndexObs(ix)])
    /\ UNCHANGED <<mach, ix, it, niter, fl, q, nid, pr>>
Reset ==
    /\ Mutating /\ ix # <<>>
    /\ ix' = <<>> /\ fresh' = TRUE /\ nmut' = nmut + 1 /\ dirty' = TRUE
    /\ h' = Append(h, [a |-> "Reset", ix |-> IndexObs(<<>>)])
    /\ UNCHANGED <<mach, it, niter, fl, q, nid, pr>>

NewIter ==
    /\ mach = "iter" /\ ~it.on /\ niter < MaxIters /\ dirty
    /\ LET p == Start(ix)
       IN  /\ it' = [on |-> TRUE, sid |-> p[1], eid |-> p[2], k |-> 0, past |-> FALSE]
           /\ h' = Append(h, [a |-> "NewIter", o |-> Obs(ix, p[1], p[2])])
    /\ niter' = niter + 1 /\ dirty' = FALSE
    /\ UNCHANGED <<mach, ix, fresh, nmut, fl, q, nid, pr>>
IterNext ==
    /\ mach = "iter" /\ it.on /\ ~AtEnd(ix, it.sid)
    /\ LET p == Step(ix, it.sid, it.eid)
       IN  /\ it' = [it EXCEPT !.sid = p[1], !.eid = p[2], !.k = it.k + 1]
           /\ h' = Append(h, [a |-> "Next", o |-> Obs(ix, p[1], p[2])])
    /\ UNCHANGED <<mach, ix, fresh, nmut, niter, dirty, fl, q, nid, pr>>
\* one more call after the end: the iterator has to stay done; then it is dropped
IterPast ==
    /\ mach = "iter" /\ it.on /\ AtEnd(ix, it.sid)
    /\ it' = NoIter
    /\ h' = Append(h, [a |-> "Next", o |-> Obs(ix, Len(ix), 0)])
    /\ UNCHANGED <<mach, ix, fresh, nmut, niter, dirty, fl, q, nid, pr>>

IterFinished == mach = "iter" /\ ~it.on /\ niter >= 1 /\ ~dirty /\ (niter = MaxIters \/ nmut = MaxMut)

\* ================================================================ queryQueue
Precedes(f, a, b) == IF f = "min" THEN a < b ELSE a > b       \* distance.less of the flavour, on ranks
Tops(f, s) == {e \in s : \A d \in s : ~Precedes(f, d[1], e[1])}
\* the keys in the order a complete drain returns them
RECURSIVE DrainKeys(_, _)
DrainKeys(f, s) ==
    IF s = {} THEN <<>>
    ELSE LET e == CHOOSE x \in Tops(f, s) : TRUE IN <<e[1]>> \o DrainKeys(f, s \ {e})
Entry(e) == [k |-> e[1], id |-> e[2]]

Push(k) ==
    /\ mach = "queue" /\ Len(h) < MaxOps
    /\ q' = q \cup {<<k, nid>>} /\ nid' = nid + 1
    /\ h' = Append(h, [a |-> "Push", k |-> k, id |-> nid, n |-> Cardinality(q) + 1])
    /\ UNCHANGED <<mach, ix, fresh, it, nmut, niter, dirty, fl, pr>>
Pop ==
    /\ mach = "queue" /\ Len(h) < MaxOps /\ q # {}
    /\ \E e \in Tops(fl, q) :
          /\ q' = q \ {e}
          /\ h' = Append(h, [a |-> "Pop", k |-> e[1], id |-> e[2], n |-> Cardinality(q) - 1,
                             cands |-> {x[2] : x \in Tops(fl, q)}])
    /\ UNCHANGED <<mach, ix, fresh, it, nmut, niter, dirty, fl, nid, pr>>
QReset ==
    /\ mach = "queue" /\ Len(h) < MaxOps /\ h # <<>> /\ h[Len(h)].a # "Reset"
    /\ q' = {}
    /\ h' = Append(h, [a |-> "Reset", n |-> 0])
    /\ UNCHANGED <<mach, ix, fresh, it, nmut, niter, dirty, fl, nid, pr>>
QueueFinished == mach = "queue" /\ Len(h) = MaxOps

\* ================================================================ the order itself
\* distance.less on every pair of ranks and the three distinguished values of each flavour:
\* "negative returns a value smaller than any valid value", "infinity ... larger than any valid
\* value", zero = the distance of coincident (min) / antipodal (max) points
AllRanks == 0..6
Valid == 1..5
ZeroRank(f) == IF f = "min" THEN 1 ELSE 5
InfRank(f) == IF f = "min" THEN 6 ELSE 0
NegRank(f) == IF f = "min" THEN 0 ELSE 6
LessTable(f) == [a \in AllRanks |-> [b \in AllRanks |-> Precedes(f, a, b)]]

\* ================================================================ printing
Finish ==
    /\ \/ /\ IterFinished
          /\ PrintT(<<"HIST", ToJson([op |-> "ext.iter", steps |-> h])>>)
       \/ /\ QueueFinished
          /\ PrintT(<<"HIST", ToJson([op |-> "ext.queue", fl |-> fl, steps |-> h, drain |-> DrainKeys(fl, q),
                                      rest |-> {Entry(e) : e \in q}])>>)
       \/ /\ mach = "less" /\ h = <<>>
          /\ PrintT(<<"HIST", ToJson([op |-> "ext.less", fl |-> fl, less |-> LessTable(fl), zero |-> ZeroRank(fl),
                                      inf |-> InfRank(fl), neg |-> NegRank(fl)])>>)
    /\ pr' = TRUE
    /\ UNCHANGED <<mach, ix, fresh, it, nmut, niter, dirty, fl, q, nid, h>>

Next ==
    /\ ~pr
    /\ \/ \E k \in Kinds, nv \in 0..MaxV : Add(k, nv)
       \/ \E s \in 0..(Len(ix) - 1) : Remove(s)
       \/ Build \/ Reset \/ NewIter \/ IterNext \/ IterPast
       \/ \E k \in Keys : Push(k)
       \/ Pop \/ QReset
       \/ Finish

\* ================================================================ theorems (INVARIANTs)
\* after k calls of Next the iterator is at the (k+1)-th edge of the index; it is done exactly
\* when all edges have been produced
IterEnumerates ==
    (mach = "iter" /\ it.on) =>
        LET ps == PairSeq(ix)
        IN  /\ it.k <= Len(ps)
            /\ AtEnd(ix, it.sid) <=> (it.k = Len(ps))
            /\ ~AtEnd(ix, it.sid) => ps[it.k + 1] = <<it.sid, it.eid>>
\* the enumeration is strictly increasing (hence duplicate free), lists live shapes only and
\* has one entry per edge
PairSeqLaws ==
    (mach = "iter") =>
        LET ps == PairSeq(ix)
        IN  /\ Len(ps) = SumEdges(ix, 1)
            /\ \A i \in 1..Len(ps) : Live(ix[ps[i][1] + 1]) /\ ps[i][2] < Edges(ix[ps[i][1] + 1])
            /\ \A i \in 1..(Len(ps) - 1) :
                  ps[i][1] < ps[i + 1][1] \/ (ps[i][1] = ps[i + 1][1] /\ ps[i][2] < ps[i + 1][2])
            /\ \A s \in 1..Len(ix) : \A e \in 0..(Edges(ix[s]) - 1) : \E i \in 1..Len(ps) : ps[i] = <<s - 1, e>>
\* queue: size is the number of entries; two pops with no push between them come out in order;
\* an entry popped was pushed before and not popped since
QueueLaws ==
    (mach = "queue") =>
        /\ h # <<>> => h[Len(h)].n = Cardinality(q)
        /\ \A i \in 1..(Len(h) - 1) :
              (h[i].a = "Pop" /\ h[i + 1].a = "Pop") => ~Precedes(fl, h[i + 1].k, h[i].k)
        /\ \A i \in 1..Len(h) : h[i].a = "Pop" =>
              /\ \E j \in 1..(i - 1) : h[j].a = "Push" /\ h[j].id = h[i].id /\ h[j].k = h[i].k
              /\ \A j \in 1..(i - 1) : ~(h[j].a = "Pop" /\ h[j].id = h[i].id)
\* the drain of the current content is sorted in the flavour's order and is a permutation of the keys
DrainLaws ==
    (mach = "queue") =>
        LET d == DrainKeys(fl, q)
        IN  /\ Len(d) = Cardinality(q)
            /\ \A i \in 1..(Len(d) - 1) : ~Precedes(fl, d[i + 1], d[i])
            /\ \A k \in AllRanks : Cardinality({i \in 1..Len(d) : d[i] = k}) = Cardinality({e \in q : e[1] = k})
\* each flavour's order is a strict weak order, the two are converse, and the distinguished values
\* bracket the valid ones
OrderLaws ==
    \A f \in {"min", "max"} :
        /\ \A a \in AllRanks : ~Precedes(f, a, a)
        /\ \A a \in AllRanks, b \in AllRanks : Precedes(f, a, b) <=> Precedes(IF f = "min" THEN "max" ELSE "min", b, a)
        /\ \A a \in AllRanks, b \in AllRanks, c \in AllRanks : (Precedes(f, a, b) /\ Precedes(f, b, c)) => Precedes(f, a, c)
        /\ \A a \in Valid : Precedes(f, NegRank(f), a) /\ Precedes(f, a, InfRank(f)) /\ ~Precedes(f, a, ZeroRank(f))
ASSUME OrderLaws
=============================================================================
