---------------------------- MODULE Trace_Bounds ----------------------------
(***************************************************************************)
(* C10, direction B: events recorded from golang/geo are validated against *)
(* the relations of Bounds.tla.  One event per TLC state; the events are   *)
(* independent of each other (each witness event names the line of its     *)
(* region event), so the file is cut into Chunks ranges explored in        *)
(* parallel.  A line that violates a relation is reported as               *)
(* <<"REJ", json>> with the names of the violated relations; the driver    *)
(* turns each into a violation keyed by relation and input class and       *)
(* confirms it by re-recording that single input in a fresh process.       *)
(*                                                                         *)
(* Events (floats are keys, see Bounds.tla):                               *)
(*  hdr  pi, npi, halfpi, nhalfpi                 keys of +-pi and +-pi/2  *)
(*  reg  kind, rect = <<latLo,latHi,lngLo,lngHi>>, capr (cap radius as     *)
(*       chord length^2), cov = <<rangeMin,rangeMax>>*, w2 = shell/holes   *)
(*       of a grid region or <<>>, tri = lattice triangle or <<>>, inv     *)
(*  wit  back (lines back to its reg), own (the region's own containment   *)
(*       answer), lat, lng (of LatLngFromPoint(w), -pi normalised to pi),  *)
(*       dist (chord length^2 centre..w), leaf (leaf cell id of w),        *)
(*       inRect, inCap, inCov (the library's own answers),                 *)
(*       probe = <<face,level,i,j>> or <<>>, k = coefficients or <<>>      *)
(*  sub  a, b (grid rectangles), sa (bound of a grown for sub-regions),    *)
(*       bb (bound of b), lib (library's sa.Contains(bb))                  *)
(*  hull signs (RobustSign of consecutive vertex triples), n,              *)
(*       ins = <<own, isVertex>>* per input point                          *)
(*  pl   polyline interior witness: latm, latp (lat -/+ slack), rect,      *)
(*       distm (chord^2 from the cap axis, less a slack), capr             *)
(***************************************************************************)
EXTENDS Bounds, Json

CONSTANT TraceFile
CONSTANT Chunks
CONSTANT Detail    \* confirmation pass: events carry slackened copies of the witness coordinates
Trace == ndJsonDeserialize(TraceFile)
NL == Len(Trace)
Hdr == Trace[1]
PI == Hdr.pi
NPI == Hdr.npi

VARIABLE l
Size == (NL + Chunks - 1) \div Chunks
Init == l \in {[c |-> k, i |-> 0] : k \in 0..(Chunks - 1)}
Next == /\ l.i = 0
        /\ l' \in {[c |-> l.c, i |-> n] : n \in (l.c * Size + 1)..(IF (l.c + 1) * Size < NL THEN (l.c + 1) * Size ELSE NL)}

\* ---- certificates ------------------------------------------------------------
\* the model certifies that the witness is inside the region
Certified(e, r) ==
    \/ /\ e.probe # <<>> /\ r.w2 # <<>>
       /\ LET in == ProbeInRegion(e.probe, r.w2[1], Tail(r.w2))
          IN  IF r.inv THEN ~in ELSE in
    \/ /\ e.k # <<>> /\ r.tri # <<>>
       /\ TriStrictlyInside(e.k, r.tri[1], r.tri[2], r.tri[3]) /\ ~r.inv
\* the model certifies that the witness is outside (used for the binding of the embedding only)
CertifiedOut(e, r) ==
    /\ e.probe # <<>> /\ r.w2 # <<>>
    /\ LET in == ProbeInRegion(e.probe, r.w2[1], Tail(r.w2))
       IN  IF r.inv THEN in ELSE ~in

Premise(e, r) == e.own \/ Certified(e, r)

\* The verdict is strict.  In the confirmation pass the name of a rejected bound relation gets
\* a magnitude suffix: "-ulp" if the witness coordinates moved by 1e-14 (slack_u, logged by the
\* harness) satisfy the relation, "-small" if 1e-6 (slack_s) suffices, none otherwise.
\* (at a pole, i.e. latitude within the slack of +-pi/2, the longitude carries no information)
NearRect(r, e, sl) ==
    /\ FLeq(sl.latm, r[2]) /\ FLeq(r[1], sl.latp)
    /\ \/ S1Has(r[3], r[4], e.lng, PI, NPI) \/ S1Has(r[3], r[4], sl.lngm, PI, NPI) \/ S1Has(r[3], r[4], sl.lngp, PI, NPI)
       \/ S1Has(sl.lngm, sl.lngp, r[3], PI, NPI)
       \/ FLeq(Hdr.halfpi, sl.latp) \/ FLeq(sl.latm, Hdr.nhalfpi)
Suffix(near_u, near_s) == IF ~Detail THEN "" ELSE IF near_u THEN "-ulp" ELSE IF near_s THEN "-small" ELSE ""

WitRej(e, r) ==
    LET inR == RectHas(r.rect, e.lat, e.lng, PI, NPI)
        inC == CapHas(r.capr, e.dist)
        inV == CoverHas(r.cov, e.leaf)
        P == Premise(e, r)
    IN  (IF P /\ ~inR
         THEN {"rect-bound" \o (IF Detail THEN Suffix(NearRect(r.rect, e, e.slack_u), NearRect(r.rect, e, e.slack_s)) ELSE "")}
         ELSE {})
        \cup (IF P /\ ~inC
              THEN {"cap-bound" \o (IF Detail THEN Suffix(CapHas(r.capr, e.slack_u.distm), CapHas(r.capr, e.slack_s.distm)) ELSE "")}
              ELSE {})
        \cup (IF P /\ ~inV THEN {"cellunion-bound"} ELSE {})
        \cup (IF inR # e.inRect THEN {"lib-rect-contains"} ELSE {})
        \cup (IF inC # e.inCap THEN {"lib-cap-contains"} ELSE {})
        \cup (IF inV # e.inCov THEN {"lib-cover-contains"} ELSE {})
        \cup (IF Certified(e, r) /\ ~e.own THEN {"own-rejects-certified-inside"} ELSE {})
        \cup (IF CertifiedOut(e, r) /\ e.own THEN {"own-accepts-certified-outside"} ELSE {})

SubRej(e) ==
    LET has == RectHasRect(e.sa, e.bb, PI, NPI)
        cert == RectInRect(e.b, e.a) /\ ~EnclosesPoleOrFace(e.a)
    IN  (IF cert /\ ~has THEN {"subregion-bound"} ELSE {})
        \cup (IF has # e.lib THEN {"lib-rect-contains-rect"} ELSE {})

HullRej(e) ==
    (IF \E k \in 1..Len(e.signs) : e.signs[k] # 1 THEN {"hull-convex"} ELSE {})
    \cup (IF \E k \in 1..Len(e.ins) : ~e.ins[k][1] /\ ~e.ins[k][2] THEN {"hull-contains-input"} ELSE {})

PlRej(e) ==
    (IF FLeq(e.latm, e.rect[2]) /\ FLeq(e.rect[1], e.latp) THEN {} ELSE {"polyline-lat-bound"})
    \cup (IF CapHas(e.capr, e.distm) THEN {} ELSE {"polyline-edge-cap-bound"})

Rej(n) ==
    LET e == Trace[n]
    IN  CASE e.ev = "wit" -> WitRej(e, Trace[n - e.back])
          [] e.ev = "sub" -> SubRej(e)
          [] e.ev = "hull" -> HullRej(e)
          [] e.ev = "pl" -> PlRej(e)
          [] OTHER -> {}

Verdict ==
    IF l.i > 0
    THEN LET rj == Rej(l.i)
         IN  IF rj # {} THEN PrintT(<<"REJ", ToJson([line |-> l.i, rel |-> SetToSeq(rj)])>>) ELSE TRUE
    ELSE TRUE

=============================================================================
