---------------------------- MODULE Gen_Measures ----------------------------
(* C18, direction A: degenerate slivers.  Every triple of the sub-lattice     *)
(* that lies exactly on one great circle with the middle vertex between the   *)
(* outer ones (a zero-area loop whose orientation exists only through the     *)
(* perturbed predicate), with the model's perturbed sign.                     *)
EXTENDS Measures, Json

CONSTANT SubIdx
PtSeq == SetToSortSeq(Pts, LexLess)
Sub == {PtSeq[i] : i \in SubIdx \cap (1..Len(PtSeq))}

VARIABLE t
Init == t \in {<<a>> : a \in Sub}
Next == /\ Len(t) = 1
        /\ t' \in {<<t[1], bc[1], bc[2]>> : bc \in {bc \in Sub \X Sub : CollinearBetween(t[1], bc[1], bc[2])}}

Full == Len(t) = 3
\* model theorems: the perturbed sign never vanishes, is alternating and invariant under rotation
SignThm == Full =>
    LET s == RobustSign(t[1], t[2], t[3])
    IN  /\ s \in {1, -1}
        /\ RobustSign(t[2], t[3], t[1]) = s /\ RobustSign(t[3], t[1], t[2]) = s
        /\ RobustSign(t[3], t[2], t[1]) = -s
Emit ==
    IF Full
    THEN PrintT(<<"CASE", ToJson([op |-> "c18.sliver", a |-> t[1], b |-> t[2], c |-> t[3],
                                  sos |-> RobustSign(t[1], t[2], t[3])])>>)
    ELSE TRUE
=============================================================================
