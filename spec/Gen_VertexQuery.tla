-------------------------- MODULE Gen_VertexQuery --------------------------
(* Extension of C04 (component B): every multiset of at most MaxLen incident edges of a target
   vertex o (from OIdx), the other end points from SubIdx, each with direction +1 or -1.
   A state is <<index of o, atom, atom, ...>> with non-decreasing atoms: one state per multiset.
   Atom 2i-1 = outgoing edge to the i-th neighbour in CCW order around o, atom 2i = incoming. *)
EXTENDS VertexQuery, Wedges, Json

CONSTANT OIdx     \* indices of the target vertices
CONSTANT SubIdx   \* indices of the neighbours
CONSTANT MaxLen   \* largest multiset
PtSeq == SetToSortSeq(Pts, LexLess)
Sub == {PtSeq[i] : i \in SubIdx \cap (1..Len(PtSeq))}
OSub == {PtSeq[i] : i \in OIdx \cap (1..Len(PtSeq))}
OSeq == SetToSortSeq(OSub, LexLess)
Ccws == FoldLeft(LAMBDA acc, o : Append(acc, CcwSeq(Sub \ {o}, o)), <<>>, OSeq)

VARIABLE t
Init == t \in {<<i>> : i \in 1..Len(OSeq)}
Next == /\ Len(t) <= MaxLen
        /\ t' \in {Append(t, a) : a \in (IF Len(t) = 1 THEN 1 ELSE t[Len(t)])..(2 * Len(Ccws[t[1]]))}

O == OSeq[t[1]]
S == Ccws[t[1]]
NS == Len(Ccws[t[1]])
K == Len(t) - 1
PosOf(a) == (a + 1) \div 2
DirOf(a) == IF a % 2 = 1 THEN 1 ELSE -1
M == [k \in 1..K |-> <<S[PosOf(t[k + 1])], DirOf(t[k + 1])>>]
\* the distinct neighbours in CCW order around o (positions are non-decreasing along t)
DistinctPos == SetToSortSeq({PosOf(t[k + 1]) : k \in 1..K}, <)
CcwNbrs == [i \in 1..Len(DistinctPos) |-> S[DistinctPos[i]]]

\* ---- model theorems ---------------------------------------------------------
SeqIsCyclicOrder ==
    (K = 1 /\ DirOf(t[2]) = 1) => \A j \in 1..NS, k \in 1..NS : SeqIsCyclicOrderAt(S, O, PosOf(t[2]), j, k)
Laws == \A MM \in {M} : CandidateLaw(MM, O) /\ ReverseLaw(MM, O)
Sibling == K <= 2 => \A MM \in {M} : \A i \in 1..NS : SiblingLaw(MM, O, S[i])
Angle == (K = 1 /\ DirOf(t[2]) = 1) => \A i \in 1..NS : AngleLaw(S[PosOf(t[2])], O, S[i])
ExactlyOne == \A s \in {CcwNbrs} : ExactlyOneLaw(s, O)

\* ---- expected answers ---------------------------------------------------------
IsAnglePair == K = 2 /\ DirOf(t[2]) # DirOf(t[3])
AngleA == IF DirOf(t[2]) = -1 THEN S[PosOf(t[2])] ELSE S[PosOf(t[3])]
AngleC == IF DirOf(t[2]) = 1 THEN S[PosOf(t[2])] ELSE S[PosOf(t[3])]

Emit ==
    \A MM \in {M} :
        PrintT(<<"CASE", ToJson([op |-> "vertexquery", o |-> O,
                                 vs |-> [k \in 1..K |-> MM[k][1]], ds |-> [k \in 1..K |-> MM[k][2]],
                                 want |-> ContainsVertex(MM, O),
                                 pre |-> PreQuery(MM), valid |-> ValidQuery(MM, O), robust |-> QueryRobust(MM, O),
                                 acv |-> IF IsAnglePair THEN AngleContainsVertexD(AngleA, O, AngleC) ELSE "-",
                                 ccw |-> CcwNbrs,
                                 ccwrobust |-> \A p \in Nbrs(MM), q \in Nbrs(MM) : p # q => Det(O, p, q) # 0])>>)
=============================================================================
