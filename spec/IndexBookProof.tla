--------------------------- MODULE IndexBookProof ---------------------------
(***************************************************************************)
(* C13: machine-checked proof (TLAPS) that the bookkeeping invariants the  *)
(* recorded index updates are held to (Trace_IndexBook.tla) are invariants *)
(* of IndexBook.tla for EVERY bound MaxID on the number of shape ids - TLC *)
(* checks them for 3 or 4 ids.  (LingeringIsQueued is about a cardinality  *)
(* and is left to TLC.)                                                    *)
(***************************************************************************)
EXTENDS IndexBook, TLAPS

ASSUME MaxIDNat == MaxID \in Nat

BTypeOKFull == BTypeOK /\ fresh \in BOOLEAN /\ applying \in BOOLEAN

BInv == BTypeOKFull /\ FreshMeansComplete /\ UpdatedAndHeldIsIndexed

LEMMA BInitInv == BInit => BInv
BY MaxIDNat DEF BInit, BInv, BTypeOKFull, BTypeOK, FreshMeansComplete, UpdatedAndHeldIsIndexed

LEMMA BStepInv == BInv /\ [BNext]_bvars => BInv'
<1> SUFFICES ASSUME BInv, [BNext]_bvars PROVE BInv' OBVIOUS
<1> USE MaxIDNat
<1>1 CASE UNCHANGED bvars
    BY <1>1 DEF bvars, BInv, BTypeOKFull, BTypeOK, FreshMeansComplete, UpdatedAndHeldIsIndexed
<1>2 ASSUME NEW v \in BOOLEAN, Add(v) PROVE BInv'
    BY <1>2 DEF Add, BInv, BTypeOKFull, BTypeOK, FreshMeansComplete, UpdatedAndHeldIsIndexed
<1>3 ASSUME NEW i \in 0..(MaxID - 1), Remove(i) PROVE BInv'
    BY <1>3 DEF Remove, BInv, BTypeOKFull, BTypeOK, FreshMeansComplete, UpdatedAndHeldIsIndexed
<1>4 CASE Reset
    BY <1>4 DEF Reset, BInv, BTypeOKFull, BTypeOK, FreshMeansComplete, UpdatedAndHeldIsIndexed
<1>5 CASE ApplyBegin
    BY <1>5 DEF ApplyBegin, BInv, BTypeOKFull, BTypeOK, FreshMeansComplete, UpdatedAndHeldIsIndexed
<1>6 CASE ApplyEnd
    BY <1>6 DEF ApplyEnd, BInv, BTypeOKFull, BTypeOK, FreshMeansComplete, UpdatedAndHeldIsIndexed
<1> QED BY <1>1, <1>2, <1>3, <1>4, <1>5, <1>6 DEF BNext

THEOREM BookCorrect == BSpec => [](BTypeOK /\ FreshMeansComplete /\ UpdatedAndHeldIsIndexed)
<1>1 BInv /\ [][BNext]_bvars => []BInv BY BStepInv, PTL
<1>2 BInv => BTypeOK /\ FreshMeansComplete /\ UpdatedAndHeldIsIndexed BY DEF BInv, BTypeOKFull
<1> QED BY <1>1, <1>2, BInitInv, PTL DEF BSpec
=============================================================================
