--------------------------- MODULE Trace_Measures ---------------------------
(***************************************************************************)
(* C18, direction B: events recorded from golang/geo validated against the *)
(* relations of Measures.tla (same reporting scheme as Trace_Bounds).      *)
(*                                                                         *)
(* hdr   zero, twopi, fourpi (keys)                                        *)
(* turn  ta, nta (= key of -ta, exact negation), rots (turning angle of    *)
(*       rotations of the vertex order), inv (after Invert()), rev (loop   *)
(*       built from the reversed order), can / cans / caninv (first two    *)
(*       vertices of the canonical sequence as indices into the original   *)
(*       order: base loop, rotations, inverted loop); areas (Area of the   *)
(*       rotations), alo, ahi (Area of the base loop -/+ documented error); *)
(*       cens (Centroid of the rotations), cinv (negated Centroid of the    *)
(*       inverted loop), celo, cehi; gblo, gbhi (2*pi - Area -/+ error)     *)
(* area  area, lo, hi (expected -/+ documented error), norm, ta, small     *)
(*       (model: "yes" below a hemisphere, "no" complement, "na"), w2/tri  *)
(*       (certificate inputs), gblo, gbhi (2*pi - area -/+ documented     *)
(*       errors: Gauss-Bonnet), after = <<IsNormalized after Normalize(),  *)
(*       boundary: "same" | "reversed" | "other">>                         *)
(* pair  sum (Area(loop) + Area(inverse)), lo, hi (4*pi -/+ error)         *)
(* poly  area, ssum (signed sum of loop areas in loop order), lo, hi       *)
(*       (cells), cen, csum (3 keys each), clo, chi, holes (IsHole flags),  *)
(*       chain (number of loops, each nested in the previous one)          *)
(* cen   cen, clo, chi: loop centroid against the sum over its cells       *)
(* cadd  centroid of a triangle with an edge close to 180 degrees against  *)
(*       the sum over its subdivision at the edge's exact midpoint         *)
(* tri3  TurnAngle / Angle / PointArea / GirardArea / SignedArea /         *)
(*       TrueCentroid of one triangle and of its permutations              *)
(* sliv  area, small, big (keys of eps and 4*pi - eps), cnt, m (probes     *)
(*       contained / probes), norm, ta                                     *)
(***************************************************************************)
EXTENDS Measures, Json

CONSTANT TraceFile
CONSTANT Chunks
CONSTANT Detail
Trace == ndJsonDeserialize(TraceFile)
NL == Len(Trace)
Hdr == Trace[1]
ZERO == Hdr.zero
TWOPI == Hdr.twopi

VARIABLE l
Size == (NL + Chunks - 1) \div Chunks
Init == l \in {[c |-> k, i |-> 0] : k \in 0..(Chunks - 1)}
Next == /\ l.i = 0
        /\ l' \in {[c |-> l.c, i |-> n] : n \in (l.c * Size + 1)..(IF (l.c + 1) * Size < NL THEN (l.c + 1) * Size ELSE NL)}

If(c, name) == IF c THEN {name} ELSE {}

TurnRej(e) ==
    If(~AllEq(e.rots, e.ta), "turning-angle-rotation")
    \cup If(e.inv # e.nta \/ ~IsNum(e.inv), "turning-angle-invert")
    \cup If(e.rev # e.nta \/ ~IsNum(e.rev), "turning-angle-reversed")
    \cup If(\E k \in 1..Len(e.cans) : e.cans[k] # e.can, "canonical-vertex-rotation")
    \cup If(e.caninv # e.can, "canonical-vertex-invert")
    \cup If(\E k \in 1..Len(e.areas) : ~Within(e.areas[k], e.alo, e.ahi), "area-rotation")
    \cup If(\E k \in 1..Len(e.cens) : \E c \in 1..3 : ~Within(e.cens[k][c], e.celo[c], e.cehi[c]), "centroid-rotation")
    \cup If(\E c \in 1..3 : ~Within(e.cinv[c], e.celo[c], e.cehi[c]), "centroid-invert")
    \cup If(~Within(e.ta, e.gblo, e.gbhi), "turning-angle-vs-area")

\* model certificate: "yes" = the region is smaller than a hemisphere, "no" = its complement is
Small(e) ==
    IF e.w2 # <<>> THEN (IF e.inv THEN "no" ELSE "yes")
    ELSE IF e.tri # <<>> /\ SmallTri(e.tri) THEN (IF e.inv THEN "no" ELSE "yes")
    ELSE "na"

AreaRej(e) ==
    LET s == Small(e)
    IN  If(~Within(e.area, e.lo, e.hi), "area-vs-expected")
        \cup If(s = "yes" /\ ~(e.norm /\ FLess(e.area, TWOPI) /\ FLess(ZERO, e.ta)), "classification-below-hemisphere")
        \cup If(s = "no" /\ ~(~e.norm /\ FLess(TWOPI, e.area) /\ FLess(e.ta, ZERO)), "classification-above-hemisphere")
        \cup If(~Within(e.ta, e.gblo, e.gbhi), "turning-angle-vs-area")
        \cup If(~e.after[1], "normalize-not-normalized")
        \cup If(s = "yes" /\ e.after[2] # "same", "normalize-changed-small-loop")
        \cup If(s = "no" /\ e.after[2] # "reversed", "normalize-boundary")
        \cup If(e.after[2] = "other", "normalize-boundary-lost")
        \* whatever the size: normalized loops have area <= 2*pi + error, others >= 2*pi - error
        \cup If(e.norm /\ FLess(e.twopihi, e.area), "normalized-but-large-area")
        \cup If(~e.norm /\ FLess(e.area, e.twopilo), "not-normalized-but-small-area")

PairRej(e) == If(~Within(e.sum, e.lo, e.hi), "area-plus-inverse-area")

PolyRej(e) ==
    If(e.area # e.ssum \/ ~IsNum(e.area), "polygon-area-signed-sum")
    \cup If(~Within(e.area, e.lo, e.hi), "polygon-area-vs-cells")
    \cup If(e.cen # e.csum, "polygon-centroid-signed-sum")
    \cup If(\E k \in 1..3 : ~Within(e.cen[k], e.clo[k], e.chi[k]), "polygon-centroid-vs-cells")
    \cup If(~DepthsOK(e.holes, e.chain), "polygon-loop-sign")

CenRej(e) == If(\E k \in 1..3 : ~Within(e.cen[k], e.clo[k], e.chi[k]), "loop-centroid-vs-cells")

Tri3Rej(e) ==
    If(e.ta # e.ntar \/ ~IsNum(e.ta), "turn-angle-antisymmetry")
    \cup If(e.ang # e.angr \/ ~IsNum(e.ang), "angle-symmetry")
    \cup If(\E k \in 1..Len(e.perms) : ~Within(e.perms[k], e.palo, e.pahi), "point-area-permutation")
    \cup If(~Within(e.girard, e.glo, e.ghi), "girard-vs-point-area")
    \cup If(~(e.sign \in {1, -1}), "sign-of-distinct-points")
    \cup If(e.sign = 1 /\ e.sa # e.pa, "signed-area")
    \cup If(e.sign = -1 /\ e.sa # e.npa, "signed-area")
    \cup If(\E k \in 1..3 : ~Within(e.tc[k], e.tclo[k], e.tchi[k]), "true-centroid-rotation")

SlivRej(e) ==
    If(4 * e.cnt <= e.m /\ ~FLess(e.area, e.small), "sliver-area-vs-containment")
    \cup If(4 * e.cnt >= 3 * e.m /\ ~FLess(e.big, e.area), "sliver-area-vs-containment")
    \cup If(4 * e.cnt <= e.m /\ ~e.norm, "sliver-normalized-vs-containment")
    \cup If(4 * e.cnt >= 3 * e.m /\ e.norm, "sliver-normalized-vs-containment")
    \cup If(4 * e.cnt > e.m /\ 4 * e.cnt < 3 * e.m, "sliver-contains-half")

\* additivity of the centroid over a subdivision with short edges: whole = TrueCentroid(p,a,b),
\* loop3 / loop4 / poly = Centroid of the loops [p,a,b], [p,a,m,b] and of the polygon [p,a,b];
\* lo/hi = TrueCentroid(p,a,m) + TrueCentroid(p,m,b) -/+ tolerance
In3(v, lo, hi) == \A c \in 1..3 : Within(v[c], lo[c], hi[c])
CaddRej(e) ==
    If(~In3(e.whole, e.lo, e.hi), "centroid-additivity")
    \cup If(~In3(e.loop3, e.lo, e.hi), "loop-centroid-additivity")
    \cup If(~In3(e.loop4, e.lo, e.hi), "loop-centroid-additivity")
    \cup If(~In3(e.poly, e.lo, e.hi), "polygon-centroid-additivity")

Rej(n) ==
    LET e == Trace[n]
    IN  CASE e.ev = "turn" -> TurnRej(e)
          [] e.ev = "area" -> AreaRej(e)
          [] e.ev = "pair" -> PairRej(e)
          [] e.ev = "poly" -> PolyRej(e)
          [] e.ev = "sliv" -> SlivRej(e)
          [] e.ev = "cen" -> CenRej(e)
          [] e.ev = "cadd" -> CaddRej(e)
          [] e.ev = "tri3" -> Tri3Rej(e)
          [] OTHER -> {}

Verdict ==
    IF l.i > 0
    THEN LET rj == Rej(l.i)
         IN  IF rj # {} THEN PrintT(<<"REJ", ToJson([line |-> l.i, rel |-> SetToSeq(rj)])>>) ELSE TRUE
    ELSE TRUE
=============================================================================
