------------------------------ MODULE CellGeom ------------------------------
(***************************************************************************)
(* C12: what the geometry of a cell must be, given its id (worlds W2/W3).  *)
(*                                                                         *)
(* The model tree: cells <<l, k>> of levels 0..L below one root (a cube    *)
(* face, or an anchor cell deep in the hierarchy given by its face and     *)
(* path); k is the number whose l base-4 digits are the child positions.   *)
(* The square a cell occupies on its face is derived level by level from   *)
(* S2's *defining* tables (posToIJ, posToOrientation, start orientation    *)
(* face % 2), never from the lookup tables or float code of the library.   *)
(* Everything below is integer arithmetic on (i,j) coordinates:            *)
(*   - which probe points (centres of finer cells) a cell contains,        *)
(*   - which grid vertices it touches (cells are closed),                  *)
(*   - which grid-line segments through cell centres cross it,             *)
(*   - which other cells it touches,                                       *)
(*   - which child occupies which quadrant, where the Hilbert curve enters *)
(*     and leaves the cell, the (i,j) coordinate of each edge.             *)
(***************************************************************************)
EXTENDS Integers, Sequences, FiniteSets, TLC

CONSTANTS L,            \* deepest model level of a cell
          AnchorFace,   \* face of the root
          AnchorLevel,  \* level of the root (0 = the face cell itself)
          AnchorHi, AnchorLo   \* path of the root: two base-4 numbers of Min(13, .) digits each

Lp == L + 1             \* probe level: probes are centres of level-Lp cells
P2(n) == 2 ^ n
P4(n) == 4 ^ n

PosToIJ == << <<0, 1, 3, 2>>, <<0, 2, 3, 1>>, <<3, 2, 0, 1>>, <<3, 1, 0, 2>> >>
PosToOrientation == <<1, 0, 0, 3>>
Xor2(a, b) == (((a % 2) + (b % 2)) % 2) + 2 * (((a \div 2) + (b \div 2)) % 2)

Digits(k, n) == [d \in 1..n |-> (k \div P4(n - d)) % 4]
RECURSIVE IJOFrom(_, _, _, _, _)
IJOFrom(p, x, i, j, o) ==
    IF x > Len(p) THEN <<i, j, o>>
    ELSE LET ij == PosToIJ[o + 1][p[x] + 1]
         IN  IJOFrom(p, x + 1, 2 * i + (ij \div 2), 2 * j + (ij % 2), Xor2(o, PosToOrientation[p[x] + 1]))

\* the root
AnchorPath ==
    IF AnchorLevel <= 13 THEN Digits(AnchorLo, AnchorLevel)
    ELSE Digits(AnchorHi, AnchorLevel - 13) \o Digits(AnchorLo, 13)
AnchorIJO == IJOFrom(AnchorPath, 1, 0, 0, AnchorFace % 2)
ASSUME AnchorLevel + Lp <= 30

\* a model cell <<l, k>>: local coordinates (in units of its own level, relative to the root)
Cells == UNION {{<<l, k>> : k \in 0..(P4(l) - 1)} : l \in 0..L}
IJO(c) == IJOFrom(Digits(c[2], c[1]), 1, 0, 0, AnchorIJO[3])
IJTab == [c \in Cells \cup {<<Lp, k>> : k \in 0..(P4(Lp) - 1)} |-> IJO(c)]   \* cached
I(c) == IJTab[c][1]
J(c) == IJTab[c][2]
Ori(c) == IJTab[c][3]
\* absolute coordinates on the face (level AnchorLevel + l)
AbsI(c) == AnchorIJO[1] * P2(c[1]) + I(c)
AbsJ(c) == AnchorIJO[2] * P2(c[1]) + J(c)

Prefix(c, q) == c[1] <= q[1] /\ q[2] \div P4(q[1] - c[1]) = c[2]       \* id-range containment
\* the square of c in units of level m >= l: [Lo, Hi] x [Lo, Hi], closed
SLo(x, l, m) == x * P2(m - l)
SHi(x, l, m) == (x + 1) * P2(m - l)

\* ---- probes: centres of the level-Lp cells ---------------------------------------
Probes == {<<Lp, k>> : k \in 0..(P4(Lp) - 1)}
ProbeInSquare(c, q) ==                         \* by coordinates: the centre (qi + 1/2, qj + 1/2)
    /\ SLo(I(c), c[1], Lp) <= I(q) /\ I(q) < SHi(I(c), c[1], Lp)
    /\ SLo(J(c), c[1], Lp) <= J(q) /\ J(q) < SHi(J(c), c[1], Lp)

\* ---- grid vertices of level Lp: (vi, vj) in 0..2^Lp ------------------------------------
VN == P2(Lp)
Touches(c, vi, vj) ==
    /\ SLo(I(c), c[1], Lp) <= vi /\ vi <= SHi(I(c), c[1], Lp)
    /\ SLo(J(c), c[1], Lp) <= vj /\ vj <= SHi(J(c), c[1], Lp)
TouchSet(c) ==
    {vi * (VN + 1) + vj : vi \in SLo(I(c), c[1], Lp)..SHi(I(c), c[1], Lp),
                          vj \in SLo(J(c), c[1], Lp)..SHi(J(c), c[1], Lp)}

\* ---- segments between centres of level-Lp cells of one row (dir 0: j fixed) or column
\* (dir 1: i fixed); lines of constant u or v are great circles, so the segment runs through
\* the middle of every cell of the row between its ends
SegCrosses(c, dir, line, a, b) ==
    LET lo == IF dir = 0 THEN SLo(J(c), c[1], Lp) ELSE SLo(I(c), c[1], Lp)
        hi == IF dir = 0 THEN SHi(J(c), c[1], Lp) ELSE SHi(I(c), c[1], Lp)
        alo == IF dir = 0 THEN SLo(I(c), c[1], Lp) ELSE SLo(J(c), c[1], Lp)
        ahi == IF dir = 0 THEN SHi(I(c), c[1], Lp) ELSE SHi(J(c), c[1], Lp)
    IN  lo <= line /\ line < hi /\ a < ahi /\ alo <= b       \* some centre x in a..b has alo <= x < ahi

\* the segment along grid line "line" (the lower boundary of that row / column) from grid vertex a
\* to grid vertex b + 1 lies on cell boundaries: it grazes the cells whose closed square meets it
GrazeTouches(c, dir, line, a, b) ==
    LET lo == IF dir = 0 THEN SLo(J(c), c[1], Lp) ELSE SLo(I(c), c[1], Lp)
        hi == IF dir = 0 THEN SHi(J(c), c[1], Lp) ELSE SHi(I(c), c[1], Lp)
        alo == IF dir = 0 THEN SLo(I(c), c[1], Lp) ELSE SLo(J(c), c[1], Lp)
        ahi == IF dir = 0 THEN SHi(I(c), c[1], Lp) ELSE SHi(J(c), c[1], Lp)
    IN  lo <= line /\ line <= hi /\ a <= ahi /\ alo <= b + 1

\* ---- cells among each other (closed squares) -----------------------------------------
CellsTouch(c, d) ==
    LET m == IF c[1] > d[1] THEN c[1] ELSE d[1]
    IN  /\ SLo(I(c), c[1], m) <= SHi(I(d), d[1], m) /\ SLo(I(d), d[1], m) <= SHi(I(c), c[1], m)
        /\ SLo(J(c), c[1], m) <= SHi(J(d), d[1], m) /\ SLo(J(d), d[1], m) <= SHi(J(c), c[1], m)
\* touches the boundary of the root square
OnBorder(c) == I(c) = 0 \/ J(c) = 0 \/ I(c) = P2(c[1]) - 1 \/ J(c) = P2(c[1]) - 1

\* ---- subdivision ----------------------------------------------------------------------
Child(c, pos) == <<c[1] + 1, 4 * c[2] + pos>>
IJOChild(c, pos) ==     \* computed from the tables, also for children of level-L cells
    LET r == IJOFrom(Digits(4 * c[2] + pos, c[1] + 1), 1, 0, 0, AnchorIJO[3]) IN r
ChildQuadrant(c, pos) ==
    LET r == IJOChild(c, pos) IN <<r[1] - 2 * I(c), r[2] - 2 * J(c)>>
\* the corner (0/1, 0/1) of c at which its first / last descendant two levels down sits
CornerOf(c, first) ==
    LET d == IF first THEN 0 ELSE 15
        r == IJOFrom(Digits(16 * c[2] + d, c[1] + 2), 1, 0, 0, AnchorIJO[3])
        x == r[1] - 4 * I(c)
        y == r[2] - 4 * J(c)
    IN  <<x, y>>                                       \* each in {0, 3} if the curve is what S2 says
Entry(c) == LET p == CornerOf(c, TRUE) IN <<p[1] \div 3, p[2] \div 3>>
Exit(c) == LET p == CornerOf(c, FALSE) IN <<p[1] \div 3, p[2] \div 3>>

\* the (i,j) coordinate (in leaf units, absolute on the face) that is constant along edge e:
\* 0 bottom (j), 1 right (i), 2 top (j), 3 left (i)
LeafShift(c) == P2(30 - AnchorLevel - c[1])
EdgeIJ(c, e) ==
    IF e = 0 THEN AbsJ(c) * LeafShift(c)
    ELSE IF e = 1 THEN (AbsI(c) + 1) * LeafShift(c)
    ELSE IF e = 2 THEN (AbsJ(c) + 1) * LeafShift(c)
    ELSE AbsI(c) * LeafShift(c)

\* lowest common ancestor, not above c
RECURSIVE LCA(_, _)
LCA(a, b) == IF a = b THEN a
             ELSE IF a[1] > b[1] THEN LCA(<<a[1] - 1, a[2] \div 4>>, b)
             ELSE IF b[1] > a[1] THEN LCA(a, <<b[1] - 1, b[2] \div 4>>)
             ELSE LCA(<<a[1] - 1, a[2] \div 4>>, <<b[1] - 1, b[2] \div 4>>)

\* ---- model theorems ------------------------------------------------------------------
\* containment by id range is containment of the centre in the square
PrefixIsSquare(c) == \A q \in Probes : Prefix(c, q) <=> ProbeInSquare(c, q)
\* the four children tile the square, each child in its own quadrant
ChildrenTile(c) ==
    /\ {ChildQuadrant(c, pos) : pos \in 0..3} = {<<0, 0>>, <<0, 1>>, <<1, 0>>, <<1, 1>>}
    /\ \A pos \in 0..3 : IJOChild(c, pos)[3] = Xor2(Ori(c), PosToOrientation[pos + 1])
\* the curve enters and leaves through two corners that share an edge of the cell, and the
\* exit corner of child pos is the entry corner of child pos+1 (continuity of the curve)
CurveShape(c) ==
    /\ \A f \in BOOLEAN : CornerOf(c, f)[1] \in {0, 3} /\ CornerOf(c, f)[2] \in {0, 3}
    /\ (Entry(c)[1] = Exit(c)[1]) # (Entry(c)[2] = Exit(c)[2])
    /\ c[1] < L =>
         \A pos \in 0..2 :
            LET a == Child(c, pos) b == Child(c, pos + 1)
            IN  <<2 * I(a) + 2 * Exit(a)[1], 2 * J(a) + 2 * Exit(a)[2]>> =
                <<2 * I(b) + 2 * Entry(b)[1], 2 * J(b) + 2 * Entry(b)[2]>>
=============================================================================
