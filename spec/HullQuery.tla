------------------------------ MODULE HullQuery -----------------------------
(***************************************************************************)
(* C10: ConvexHullQuery as a state machine.  One query object receives     *)
(* geometry in any order (points, polylines, loops, polygons with nested   *)
(* loops) and is asked for CapBound / ConvexHull at any time.  The         *)
(* abstract state is the set of input points so far; every answer must be  *)
(* a function of that set only:                                            *)
(*   S  the points that can be hull vertices (points, polyline and loop    *)
(*      vertices, vertices of the polygon loops of depth 0),               *)
(*   V  all vertices added so far (holes and islands included): the hull   *)
(*      and the cap bound must contain every one of them.                  *)
(* Geometry lives on the integer grid of one cube face (gnomonic: straight *)
(* grid lines are great circles), so grid squares are valid loops, nesting *)
(* is decided by integer comparison and the hull by Exact!RobustSign.      *)
(* Behaviours are exported with the history variable h and replayed on a   *)
(* real ConvexHullQuery object.                                            *)
(***************************************************************************)
EXTENDS Bounds, Json

CONSTANT Axis, NegSide     \* the face: coordinate Axis is +N or -N
CONSTANT SubIdx            \* indices (into the sorted face grid) of the points used for points / polylines / loops
CONSTANT Forests           \* which catalogue polygons may be added
CONSTANT MaxLen

Side == IF NegSide THEN -1 ELSE 1
GP(y, z) == IF Axis = 1 THEN <<Side * N, y, z>> ELSE IF Axis = 2 THEN <<y, Side * N, z>> ELSE <<y, z, Side * N>>
FaceGrid == {p \in Pts : p[Axis] = Side * N}
FaceSeq == SetToSortSeq(FaceGrid, LexLess)
Sub == {FaceSeq[i] : i \in SubIdx \cap (1..Len(FaceSeq))}

\* a grid square [y0,y0+s] x [z0,z0+s] and its nesting depth
Sq(y0, z0, s, d) == [v |-> <<GP(y0, z0), GP(y0 + s, z0), GP(y0 + s, z0 + s), GP(y0, z0 + s)>>, d |-> d,
                     box |-> <<y0, z0, s>>]
\* the catalogue (N = 4): shells, holes (depth 1) and an island (depth 2); shells are pairwise disjoint
Forest(k) ==
    CASE k = 1 -> <<Sq(-4, -4, 4, 0), Sq(-3, -3, 2, 1), Sq(1, 1, 2, 0)>>
      [] k = 2 -> <<Sq(-4, 0, 4, 0), Sq(-3, 1, 2, 1), Sq(1, -4, 3, 0), Sq(2, -3, 1, 1), Sq(2, 2, 2, 0)>>
      [] k = 3 -> <<Sq(-2, -2, 1, 0), Sq(0, 0, 3, 0)>>
      [] k = 4 -> <<Sq(-4, -4, 6, 0), Sq(-3, -3, 4, 1), Sq(-1, -1, 1, 2), Sq(3, 3, 1, 0)>>
      [] OTHER -> <<Sq(-1, -1, 2, 0)>>
SeqSet(s) == {s[i] : i \in 1..Len(s)}
ForestAll(k) == UNION {SeqSet(Forest(k)[i].v) : i \in 1..Len(Forest(k))}
ForestShells(k) == UNION {SeqSet(Forest(k)[i].v) : i \in {j \in 1..Len(Forest(k)) : Forest(k)[j].d = 0}}
\* box b strictly inside box a / disjoint from it (integer comparison)
Inside(b, a) == a[1] < b[1] /\ a[2] < b[2] /\ b[1] + b[3] < a[1] + a[3] /\ b[2] + b[3] < a[2] + a[3]
Disjoint(a, b) == a[1] + a[3] < b[1] \/ b[1] + b[3] < a[1] \/ a[2] + a[3] < b[2] \/ b[2] + b[3] < a[2]
\* catalogue sanity: every loop of depth d > 0 lies strictly inside the nearest preceding loop of depth d-1,
\* loops of depth 0 are pairwise disjoint
ForestOK(k) ==
    LET f == Forest(k)
    IN  /\ \A i \in 1..Len(f) : f[i].d > 0 =>
              \E j \in 1..(i - 1) : /\ f[j].d = f[i].d - 1 /\ Inside(f[i].box, f[j].box)
                                    /\ \A m \in (j + 1)..(i - 1) : f[m].d > f[j].d
        /\ \A i \in 1..Len(f), j \in 1..Len(f) : (i < j /\ f[i].d = 0 /\ f[j].d = 0) => Disjoint(f[i].box, f[j].box)
ASSUME \A k \in Forests : N = 4 /\ ForestOK(k)

\* kind: the operation chosen for the next step ("" = not chosen yet).  Choosing the kind first makes a
\* random walk (tlc -simulate picks successors uniformly) call every operation equally often.
VARIABLES S, V, h, done, kind
vars == <<S, V, h, done, kind>>
Kinds == {"AddPoint", "AddPolyline", "AddLoop", "AddPolygon", "CapBound", "ConvexHull"}

Init == S = {} /\ V = {} /\ h = <<>> /\ done = FALSE /\ kind = ""

LexSeq(X) == SetToSortSeq(X, LexLess)

\* the expected answers for the input sets (s, v); the hull edges are computed once
RECURSIVE Walk(_, _, _)
Walk(succ, p, n) == IF n = 0 THEN <<>> ELSE <<p>> \o Walk(succ, succ[p], n - 1)
ExpectOf(s, v) ==
    IF Cardinality(s) < 3
    THEN [n |-> Cardinality(s), inputs |-> LexSeq(v), hull |-> LexSeq(s), robust |-> TRUE, must |-> LexSeq(s), mustnot |-> <<>>]
    ELSE LET E == HullEdges(s)
             HV == {e[1] : e \in E}
             succ == [p \in HV |-> CHOOSE q \in HV : <<p, q>> \in E]
             start == CHOOSE p \in HV : \A q \in HV : p = q \/ LexLess(p, q)
         IN  [n |-> Cardinality(s), inputs |-> LexSeq(v),
              hull |-> Walk(succ, start, Cardinality(HV)),
              \* (for larger sets the exact-cycle prediction on the rounded embedding is not claimed)
              robust |-> IF Cardinality(s) > 8 THEN FALSE ELSE NoZeroDet(s),
              \* end points of hull edges that have every other point strictly (non-zero determinant) on the left
              must |-> LexSeq(UNION {{e[1], e[2]} : e \in {e \in E : \A r \in s \ {e[1], e[2]} : Det(e[1], e[2], r) > 0}}),
              \* strictly inside the hull: strictly left (non-zero determinant) of every hull edge
              mustnot |-> LexSeq({p \in s \ HV : \A e \in E : Det(e[1], e[2], p) > 0})]

\* the history holds the operations only; the expected answers are attached when the behaviour is exported
AddPoint(p) == /\ S' = S \cup {p} /\ V' = V \cup {p}
               /\ h' = Append(h, [a |-> "AddPoint", pts |-> <<p>>, k |-> 0])
AddPolyline(p, q) == /\ p # q
                     /\ S' = S \cup {p, q} /\ V' = V \cup {p, q}
                     /\ h' = Append(h, [a |-> "AddPolyline", pts |-> <<p, q>>, k |-> 0])
AddLoop(p, q, r) == /\ Det(p, q, r) > 0
                    /\ S' = S \cup {p, q, r} /\ V' = V \cup {p, q, r}
                    /\ h' = Append(h, [a |-> "AddLoop", pts |-> <<p, q, r>>, k |-> 0])
AddPolygon(k) == /\ S' = S \cup ForestShells(k) /\ V' = V \cup ForestAll(k)
                 /\ h' = Append(h, [a |-> "AddPolygon", pts |-> <<>>, k |-> k])
CapBound == /\ V # {}
            /\ h' = Append(h, [a |-> "CapBound", pts |-> <<>>, k |-> 0]) /\ UNCHANGED <<S, V>>
ConvexHull == /\ V # {}
              /\ h' = Append(h, [a |-> "ConvexHull", pts |-> <<>>, k |-> 0]) /\ UNCHANGED <<S, V>>

\* abstract state after the first i operations of a history
RECURSIVE SAt(_, _), VAt(_, _)
SAt(hh, i) == IF i = 0 THEN {} ELSE
    LET e == hh[i] IN SAt(hh, i - 1) \cup (IF e.a = "AddPolygon" THEN ForestShells(e.k) ELSE SeqSet(e.pts))
VAt(hh, i) == IF i = 0 THEN {} ELSE
    LET e == hh[i] IN VAt(hh, i - 1) \cup (IF e.a = "AddPolygon" THEN ForestAll(e.k) ELSE SeqSet(e.pts))
Export(hh) ==
    [i \in 1..Len(hh) |->
        LET e == hh[i]
        IN  IF e.a \in {"CapBound", "ConvexHull"} THEN [a |-> e.a, want |-> ExpectOf(SAt(hh, i), VAt(hh, i))]
            ELSE IF e.a = "AddPolygon"
            THEN [a |-> e.a, k |-> e.k,
                  loops |-> [j \in 1..Len(Forest(e.k)) |-> [v |-> Forest(e.k)[j].v, d |-> Forest(e.k)[j].d]]]
            ELSE [a |-> e.a, pts |-> e.pts]]

Finish == /\ Len(h) = MaxLen /\ ~done
          /\ PrintT(<<"HIST", ToJson([op |-> "c10.hullq", n |-> N, steps |-> Export(h)])>>)
          /\ done' = TRUE /\ UNCHANGED <<S, V, h, kind>>

Next ==
    \/ /\ Len(h) < MaxLen /\ kind = ""
       /\ kind' \in {k \in Kinds : (k \in {"CapBound", "ConvexHull"} => V # {}) /\ (k = "AddPolygon" => Forests # {})}
       /\ UNCHANGED <<S, V, h, done>>
    \/ /\ Len(h) < MaxLen /\ kind # "" /\ kind' = "" /\ UNCHANGED done
       /\ \/ kind = "AddPoint" /\ \E p \in Sub : AddPoint(p)
          \/ kind = "AddPolyline" /\ \E p \in Sub, q \in Sub : AddPolyline(p, q)
          \/ kind = "AddLoop" /\ \E p \in Sub, q \in Sub, r \in Sub : AddLoop(p, q, r)
          \/ kind = "AddPolygon" /\ \E k \in Forests : AddPolygon(k)
          \/ kind = "CapBound" /\ CapBound
          \/ kind = "ConvexHull" /\ ConvexHull
    \/ Finish
    \/ (done /\ UNCHANGED vars)

\* ---- model theorems (evaluated on exported behaviours) ----------------------
\* the hull of the hull-relevant points contains every vertex added so far (holes and islands lie
\* inside their shells), and it is one simple cycle
HullCoversAll ==
    (done /\ Cardinality(S) >= 3) =>
        LET E == HullEdges(S) HV == {e[1] : e \in E}
        IN  /\ \A p \in HV : Cardinality({e \in E : e[1] = p}) = 1 /\ Cardinality({e \in E : e[2] = p}) = 1
            /\ \A v \in V \ HV : \A e \in E : RobustSign(e[1], e[2], v) = 1
SubsetThm == done => S \subseteq V
=============================================================================
