------------------------------ MODULE Gen_Grid ------------------------------
(***************************************************************************)
(* Case generator for world W2 (Grid.tla).  The states are the cases:      *)
(*   Mode = "loop"   one region (loop / polygon with holes / staircase /   *)
(*                   L-shape) on one face, with all answer tables          *)
(*   Mode = "scene"  1..4 shapes of mixed dimension sharing a ShapeIndex   *)
(*   Mode = "tile"   families of regions that tile a face (and, with the   *)
(*                   other five whole faces, the sphere)                   *)
(* The window XS x YS (sets of vertex coordinates chosen by the driver from *)
(* the seed) spans the rectangles that are enumerated exhaustively.        *)
(***************************************************************************)
EXTENDS Grid, Json, SequencesExt

CONSTANT Mode
CONSTANT Op         \* "op" of the emitted cases
CONSTANT Faces      \* faces to embed on
CONSTANT XS, YS     \* window: admissible rectangle coordinates
CONSTANT XH, YH     \* window of the holes / islands (inside the hull of XS x YS)
CONSTANT Steps      \* spacing of the collinear vertices inserted along the sides
CONSTANT StairN     \* staircase sizes
CONSTANT Families   \* which families to enumerate (strings)
CONSTANT KVs        \* variants of the concrete shape types used by the harness
CONSTANT QSeed      \* selects the query segments
CONSTANT NQ         \* number of query segments per direction
CONSTANT WithCells  \* emit the cell classes (levels G-1..G+1) and the cells met by every edge
CONSTANT Prove      \* check the (expensive) local-rule theorems on every case
CONSTANT Parts      \* the rectangles of a family are split into this many parts (work partition)
CONSTANT OI, OJ     \* the level-G cell (of face 2) that contains S2's fixed reference point OriginPoint()
                    \* (the "o..." families; computed by the harness from the real point)

SetMin(A) == CHOOSE x \in A : \A y \in A : x <= y
SetMax(A) == CHOOSE x \in A : \A y \in A : x >= y

AllRects == UNION {{Rect(x0, y0, x1, y1) : x1 \in {x \in XS : x > x0}, y1 \in {y \in YS : y > y0}} : x0 \in XS, y0 \in YS}
HoleRects == UNION {{Rect(x0, y0, x1, y1) : x1 \in {x \in XH : x > x0}, y1 \in {y \in YH : y > y0}} : x0 \in XH, y0 \in YH}

Hull == Rect(SetMin(XS), SetMin(YS), SetMax(XS), SetMax(YS))
HoleHull == Rect(SetMin(XH), SetMin(YH), SetMax(XH), SetMax(YH))
WholeFace == Rect(0, 0, S, S)

HolesIn == {h \in HoleRects : StrictlyInside(h, Hull)}
RKey(r) == ((r.p[1] * 70 + r.p[2]) * 70 + r.p[3]) * 70 + r.p[4]

\* ---- regions of mode "loop" -----------------------------------------------------------
PR(rs, part) == {r \in rs : RKey(r) % Parts = part}
First(part, set) == IF part = 0 THEN set ELSE {}

\* Regions placed relative to the reference point from which loop.go / polygon.go count crossings:
\* rectangles that contain the origin cell, growing by p,q,r,s cells on the four sides
OBox(p, q, r, s) == Rect(OI - p, OJ - q, OI + 1 + r, OJ + 1 + s)
OGrow(b, m) == Rect(b.p[1] - m, b.p[2] - m, b.p[3] + m, b.p[4] + m)
OBoxes(lo) == {OBox(p, q, r, s) : p \in lo..(lo + 1), q \in lo..(lo + 1), r \in lo..(lo + 1), s \in lo..(lo + 1)}
\* keep the regions whose shell (first piece) lies on the face
Fit(set) == {pcs \in set : PWellFormed(pcs[1])}

CornerTouch(a, b) ==
    \/ (a.p[3] = b.p[1] /\ a.p[4] = b.p[2])
    \/ (b.p[3] = a.p[1] /\ b.p[4] = a.p[2])
    \/ (a.p[1] = b.p[3] /\ a.p[4] = b.p[2])
    \/ (b.p[1] = a.p[3] /\ b.p[4] = a.p[2])

RegionsOf(fam, part) ==
    CASE fam = "rect" -> {<<r>> : r \in PR(AllRects, part)}
      [] fam = "face" -> First(part, {<<WholeFace>>})
      [] fam = "hole1" -> {<<Hull, h>> : h \in PR(HolesIn, part)}
      [] fam = "hole2" -> UNION {{<<Hull, h1, h2>> : h2 \in {h \in HolesIn : Separated(h1, h) /\ RKey(h1) < RKey(h)}} : h1 \in PR(HolesIn, part)}
      \* two separate shells (they may touch at a corner), the second possibly with a hole
      [] fam = "shells2" -> UNION {{<<r1, r2>> : r2 \in {r \in AllRects : Separated(r1, r) /\ RKey(r1) < RKey(r)}} : r1 \in PR(AllRects, part)}
      \* a shell around the origin with a hole that surrounds the origin (origin outside the region)
      [] fam = "ohole" -> Fit({<<OGrow(h, m), h>> : h \in PR(OBoxes(0), part), m \in {1, 2, 4}})
      \* ... and an island in that hole that contains the origin again (depth 2), or lies beside it
      [] fam = "oisland" -> Fit(UNION {{<<OGrow(h, 2), h, OBox(0, 0, 0, 0)>>, <<OGrow(h, 1), h, Rect(OI - 1, OJ - 1, OI, OJ)>>} :
                                        h \in PR(OBoxes(2), part)})
      \* shells that contain the origin (no hole / a hole beside it), shells beside the origin,
      \* a shell whose hole is beside the origin cell
      [] fam = "onear" -> First(part,
                          Fit({<<b>> : b \in OBoxes(0) \cup OBoxes(3)}
                              \cup {<<OBox(3, 3, 3, 3), Rect(OI + 1, OJ - 1, OI + 2, OJ + 2)>>,
                                    <<OBox(4, 4, 4, 4), Rect(OI - 2, OJ + 1, OI + 2, OJ + 3)>>,
                                    <<Rect(OI + 1, OJ - 2, OI + 6, OJ + 4)>>, <<Rect(OI - 5, OJ + 1, OI + 3, OJ + 6)>>,
                                    <<Rect(OI + 1, OJ - 3, OI + 8, OJ + 5), Rect(OI + 2, OJ - 1, OI + 4, OJ + 2)>>}))
      \* loops touching at exactly one vertex: two shells, or two holes of a shell listed before it
      [] fam = "touch" -> UNION {{<<r1, r2>> : r2 \in {r \in AllRects : CornerTouch(r1, r)}} : r1 \in PR(AllRects, part)}
                          \cup UNION {{<<h1, h2, Hull>> : h2 \in {h \in HolesIn : CornerTouch(h1, h)}} : h1 \in PR(HolesIn, part)}
      [] fam = "island" -> {<<Hull, HoleHull, r>> : r \in {r \in PR(HoleRects, part) : StrictlyInside(r, HoleHull)}}
      [] fam = "facehole" -> {<<WholeFace, r>> : r \in {r \in PR(AllRects, part) : StrictlyInside(r, WholeFace)}}
      [] fam = "stair" -> First(part,
                          {<<Stair(SetMin(XS), SetMin(YS), n)>> : n \in {n \in StairN : SetMin(XS) + n <= S /\ SetMin(YS) + n <= S}}
                          \cup {<<Hull, Stair(SetMin(XH), SetMin(YH), n)>> :
                                    n \in {n \in StairN : StrictlyInside(Stair(SetMin(XH), SetMin(YH), n), Hull)}})
      [] fam = "ell" -> First(part,
                        UNION {{<<Ell(x0, y0, x1, y1, cx, cy)>> :
                                    cx \in {x \in XS : x0 < x /\ x < x1}, cy \in {y \in YS : y0 < y /\ y < y1}} :
                                x0 \in XS, y0 \in YS, x1 \in XS, y1 \in YS})

\* ---- shapes of mode "scene" -----------------------------------------------------------
\* a polyline along grid lines: east from (x0,y0) to (x1,y0), then north to (x1,y1)
PathAlong(x0, y0, x1, y1, step) ==
    SidePts(<<x0, y0>>, <<x1, y0>>, step) \o SidePts(<<x1, y0>>, <<x1, y1>>, step) \o << <<x1, y1>> >>
\* a zigzag of n unit diagonals starting at (x0,y0)
PathDiag(x0, y0, n) == [k \in 1..(n + 1) |-> <<x0 + k - 1, y0 + ((k - 1) % 2)>>]
\* along a grid line, then diagonally across cells
PathMixed(x0, y0, x1, n) == SidePts(<<x0, y0>>, <<x1, y0>>, 1) \o PathDiag(x1, y0, n)

Poly(face, pcs, step) == [dim |-> 2, face |-> face, pcs |-> pcs, step |-> step, verts |-> <<>>, inv |-> FALSE]
Line(face, verts) == [dim |-> 1, face |-> face, pcs |-> <<>>, step |-> 1, verts |-> verts, inv |-> FALSE]
Dots(face, verts) == [dim |-> 0, face |-> face, pcs |-> <<>>, step |-> 1, verts |-> verts, inv |-> FALSE]
\* the complement of a region: the same boundary traversed backwards; it contains the rest of its
\* face and all of the other five faces
Compl(sh) == [sh EXCEPT !.inv = TRUE]

x0w == SetMin(XS)
x1w == SetMax(XS)
y0w == SetMin(YS)
y1w == SetMax(YS)

BasePoly(face, step) ==
    IF HolesIn = {} THEN Poly(face, <<Hull>>, step)
    ELSE Poly(face, <<Hull, CHOOSE h \in HolesIn : \A k \in HolesIn : RKey(h) <= RKey(k)>>, step)

Lines(face, step) ==
    { Line(face, PathAlong(x0w, y0w, x1w, y1w, step)),
      Line(face, PathAlong(SetMin(XH), y0w, SetMax(XH), y1w, 1)) }
    \cup (IF x0w + 4 <= S /\ y0w + 1 <= S THEN {Line(face, PathDiag(x0w, y0w, 4))} ELSE {})
    \cup (IF x1w + 3 <= S /\ y0w + 1 <= S THEN {Line(face, PathMixed(x0w, y0w, x1w, 3))} ELSE {})

\* points: the corners of the window, of the hole window, and the window centre-ish vertex
DotSet(face) ==
    LET vs == {<<x0w, y0w>>, <<x1w, y0w>>, <<x1w, y1w>>, <<x0w, y1w>>,
               <<SetMin(XH), SetMin(YH)>>, <<SetMax(XH), SetMax(YH)>>, <<(x0w + x1w) \div 2, (y0w + y1w) \div 2>>}
    IN  Dots(face, SetToSortSeq(vs, LAMBDA a, b : a[1] * 1000 + a[2] < b[1] * 1000 + b[2]))

OtherFace(f) == (f + 1) % 6

ScenesOf(fam, face, step, part) ==
    CASE fam = "one" -> First(part, {<<BasePoly(face, step)>>})
      [] fam = "two" -> {<<BasePoly(face, step), Poly(face, <<r>>, step)>> : r \in PR(AllRects, part)}
      [] fam = "polyline" -> First(part, {<<BasePoly(face, step), l>> : l \in Lines(face, step)})
      [] fam = "four" -> {<<BasePoly(face, step), Poly(face, <<r>>, 1), l, DotSet(face)>> :
                              r \in PR(AllRects, part), l \in Lines(face, step)}
      [] fam = "thin" -> First(part, {<<l, DotSet(face)>> : l \in Lines(face, step)} \cup {<<DotSet(face)>>})
      [] fam = "compl" -> {<<Compl(Poly(face, <<r>>, step))>> : r \in PR(AllRects, part)}
                          \cup First(part, {<<Compl(BasePoly(face, step)), l>> : l \in Lines(face, step)})
                          \cup {<<Compl(BasePoly(face, step)), Poly(OtherFace(face), <<r>>, step)>> : r \in PR(AllRects, part)}
      [] fam = "faces" -> {<<BasePoly(face, step), Poly(OtherFace(face), <<r>>, step), l>> :
                              r \in PR(AllRects, part), l \in Lines(OtherFace(face), step)}

\* ---- tilings (mode "tile") --------------------------------------------------------------
\* guillotine partitions of the face into four rectangles; other families made of a rectangle,
\* a hole in it and the rest of the face.  Each member is a region <<pieces>>.
TilingsOf(fam, part) ==
    CASE fam = "guillotine" ->
            {<< <<Rect(0, 0, c, d1)>>, <<Rect(0, d1, c, S)>>, <<Rect(c, 0, S, d2)>>, <<Rect(c, d2, S, S)>> >> :
                c \in {c \in XS \cap (1..(S - 1)) : c % Parts = part}, d1 \in YS \cap (1..(S - 1)), d2 \in YS \cap (1..(S - 1))}
      [] fam = "ring" ->
            {<< <<WholeFace, Hull>>, <<Hull, h>>, <<h>> >> :
                h \in {h \in PR(HoleRects, part) : StrictlyInside(h, Hull) /\ StrictlyInside(Hull, WholeFace)}}
      [] fam = "wholeface" -> First(part, {<< <<WholeFace>> >>})
      \* all cells of level G, each as its own loop
      [] fam = "cells" -> First(part, {[k \in 1..(S * S) |-> LET i == (k - 1) % S  j == (k - 1) \div S IN <<Rect(i, j, i + 1, j + 1)>>]})
      \* horizontal strips of cells between the window's y coordinates
      [] fam = "strips" -> First(part, {LET ys == SetToSortSeq(YS \cup {0, S}, <)
                                         IN  [k \in 1..(Len(ys) - 1) |-> <<Rect(0, ys[k], S, ys[k + 1])>>]})

\* three levels: <<face>> -> <<face, family, step, kv, part>> -> the case; the cases of one
\* second-level state are generated and checked by one worker
VARIABLE t
Init == t \in {<<f>> : f \in Faces}
Next ==
    \/ /\ Len(t) = 1
       /\ t' \in {<<t[1], fam, st, kv, part>> : fam \in Families, st \in Steps, kv \in KVs, part \in 0..(Parts - 1)}
    \/ /\ Len(t) = 5
       /\ \/ /\ Mode = "loop"
             /\ t' \in {<<t[1], "loop", pcs, t[3], t[4], t[5]>> : pcs \in RegionsOf(t[2], t[5])}
          \/ /\ Mode = "scene"
             /\ t' \in {<<t[1], "scene", sc, t[3], t[4], t[5]>> : sc \in ScenesOf(t[2], t[1], t[3], t[5])}
          \/ /\ Mode = "tile"
             /\ t' \in {<<t[1], "tile", fm, t[3], t[4], t[5]>> : fm \in TilingsOf(t[2], t[5])}

Full == Len(t) = 6
Face == t[1]
Step == t[4]
KV == t[5]

\* ---- tables of one shape -------------------------------------------------------------------
\* When two or more loops of a region touch at a vertex, every loop through that vertex is
\* rotated so that it starts there (the vertex becomes V0 of edge 0 when such a loop comes first):
\* the lax shapes anchor their containment at the first vertex of the first loop.
RangeOf(l) == {l[k] : k \in 1..Len(l)}
SharedVerts(ls) == {v \in UNION {RangeOf(ls[a]) : a \in 1..Len(ls)} :
                       Cardinality({a \in 1..Len(ls) : v \in RangeOf(ls[a])}) >= 2}
RotTo(l, v) ==
    IF v \notin RangeOf(l) THEN l
    ELSE LET k == CHOOSE k \in 1..Len(l) : l[k] = v
         IN  Explicit([m \in 1..Len(l) |-> l[((k + m - 2) % Len(l)) + 1]])
RotateToShared(ls) ==
    LET sv == SharedVerts(ls)
    IN  IF sv = {} THEN ls
        ELSE LET v == CHOOSE v \in sv : \A w \in sv : v[1] * 1000 + v[2] <= w[1] * 1000 + w[2]
             IN  Explicit([k \in 1..Len(ls) |-> RotTo(ls[k], v)])
ShapeLoops(sh) ==
    IF sh.dim # 2 THEN <<sh.verts>>
    ELSE LET ls == RotateToShared(RLoops(sh.pcs, sh.step))
         IN  IF sh.inv THEN [k \in 1..Len(ls) |-> Explicit(RevSeq(ls[k]))] ELSE ls
ShapeEdges(sh) ==
    IF sh.dim = 2 THEN LET ls == ShapeLoops(sh) IN Flatten([k \in 1..Len(ls) |-> LoopEdges(ls[k])])
    ELSE IF sh.dim = 1 THEN PathEdges(sh.verts)
    ELSE PointEdges(sh.verts)

\* the concrete Go type that realises shape number k (1-based) under kind variant kv
SingleKinds == <<"Loop", "Polygon", "LaxPolygon", "LaxLoop">>
MultiKinds == <<"Polygon", "LaxPolygon">>
KindOf(sh, num, kv) ==
    IF sh.dim = 0 THEN "PointVector"
    ELSE IF sh.dim = 1 THEN (IF (kv + num - 1) % 2 = 0 THEN "Polyline" ELSE "LaxPolyline")
    ELSE IF Len(sh.pcs) = 1 THEN SingleKinds[((kv + num - 1) % 4) + 1]
    ELSE MultiKinds[((kv + num - 1) % 2) + 1]

ShapeRec(sh, num, kv) ==
    LET edges == ShapeEdges(sh)
        kind == KindOf(sh, num, kv)
        \* complement: in <-> out (cell and vertex classes: 0 <-> 1, touching classes 2 <-> 4)
        Flip(m, perm) == [a \in 1..Len(m) |-> [b \in 1..Len(m[a]) |-> perm[m[a][b] + 1]]]
    IN  [dim |-> sh.dim, face |-> sh.face, step |-> sh.step, pcs |-> sh.pcs, inv |-> sh.inv, kind |-> kind,
         depths |-> [k \in 1..Len(sh.pcs) |-> Depth(sh.pcs, k)],
         loops |-> ShapeLoops(sh),
         nedges |-> Len(edges),
         inM |-> IF sh.dim # 2 THEN <<>> ELSE IF sh.inv THEN Flip(InM(sh.pcs), <<1, 0>>) ELSE InM(sh.pcs),
         vclass |-> IF sh.dim # 2 THEN <<>> ELSE IF sh.inv THEN Flip(VClassM(sh.pcs), <<1, 0, 2>>) ELSE VClassM(sh.pcs),
         \* cell relations exist for the Region types only
         cclass |-> IF sh.dim = 2 /\ WithCells /\ kind \in {"Loop", "Polygon"}
                    THEN [d \in 1..3 |-> IF sh.inv THEN Flip(CellClassM(sh.pcs, d - 2), <<1, 0, 4, 3, 2>>) ELSE CellClassM(sh.pcs, d - 2)]
                    ELSE <<>>,
         \* cells below level G+1: demanded answers by the class of the level-(G+1) ancestor
         deepC |-> [k \in 1..5 |-> DeepContains(k - 1)],
         deepI |-> [k \in 1..5 |-> DeepIntersects(k - 1)],
         met |-> IF WithCells THEN [k \in 1..Len(edges) |-> Met(edges[k])] ELSE <<>>]

\* ---- query segments --------------------------------------------------------------------------
\* quad coordinates of the centre of level-(G+1) cell p: 2p+1.  One horizontal and one vertical
\* segment per index r, plus full-span segments on every fourth line.
NP == 2 * S
QueryH(r) == LET a == (7 * r + QSeed) % NP
                 b == (13 * r + 5 + 3 * QSeed) % NP
                 y == 2 * ((r * 2 + (QSeed % 2)) % NP) + 1
             IN  IF r % 4 = 3 THEN <<1, y, 2 * NP - 1, y>> ELSE <<2 * a + 1, y, 2 * b + 1, y>>
QueryV(r) == LET a == (5 * r + 2 * QSeed) % NP
                 b == (11 * r + 3 + QSeed) % NP
                 x == 2 * ((r * 2 + 1 - (QSeed % 2)) % NP) + 1
             IN  IF r % 4 = 1 THEN <<x, 1, x, 2 * NP - 1>> ELSE <<x, 2 * a + 1, x, 2 * b + 1>>
Queries == {QueryH(r) : r \in 0..(NQ - 1)} \cup {QueryV(r) : r \in 0..(NQ - 1)}
QLess(a, b) ==
    IF a[1] # b[1] THEN a[1] < b[1]
    ELSE IF a[2] # b[2] THEN a[2] < b[2]
    ELSE IF a[3] # b[3] THEN a[3] < b[3]
    ELSE a[4] < b[4]
QuerySeq == SetToSortSeq(Queries, QLess)

\* ---- model-level theorems ---------------------------------------------------------------
RegionOK(pcs, step) == /\ RWellFormed(pcs) /\ LoopTheorems(pcs, step)
                       /\ (Prove => ParityTheorem(pcs, step) /\ LocalRuleTheorems(pcs, step) /\ DeepRuleTheorem(pcs))

CaseTheorems ==
    Full =>
        CASE t[2] = "loop" -> RegionOK(t[3], Step)
          [] t[2] = "scene" ->
                \A k \in 1..Len(t[3]) :
                    LET sh == t[3][k]
                    IN  IF sh.dim = 2 THEN RegionOK(sh.pcs, sh.step)
                        ELSE /\ \A m \in 1..Len(sh.verts) : sh.verts[m][1] \in 0..S /\ sh.verts[m][2] \in 0..S
                             /\ sh.dim = 1 => \A m \in 1..(Len(sh.verts) - 1) :
                                    LET e == <<sh.verts[m], sh.verts[m + 1]>>
                                    IN  e[1] # e[2] /\ (AxisParallel(e) \/ UnitDiagonal(e))
          [] t[2] = "tile" ->
                /\ \A k \in 1..Len(t[3]) : RegionOK(t[3][k], Step)
                \* the members tile the face: every cell (hence every probe) is in exactly one
                /\ \A i \in 0..(S - 1), j \in 0..(S - 1) :
                       Cardinality({k \in 1..Len(t[3]) : RIn(t[3][k], i, j)}) = 1

\* the query answers are symmetric under reversal of the query segment and of the edge
QueryTheorems ==
    Full /\ t[2] = "scene" /\ Prove =>
        \A k \in 1..Len(t[3]) :
            LET edges == ShapeEdges(t[3][k])
            IN  \A q \in Queries : \A m \in 1..Len(edges) :
                    /\ CrossQ(q, edges[m]) = CrossQ(<<q[3], q[4], q[1], q[2]>>, edges[m])
                    /\ CrossQ(q, edges[m]) = CrossQ(q, <<edges[m][2], edges[m][1]>>)

Emit ==
    IF ~Full THEN TRUE
    ELSE IF t[2] = "loop"
    THEN PrintT(<<"CASE", ToJson([op |-> Op, g |-> G, face |-> Face, kv |-> KV,
                                  shapes |-> << ShapeRec(Poly(Face, t[3], Step), 1, KV) >>])>>)
    ELSE IF t[2] = "tile"
    THEN PrintT(<<"CASE", ToJson([op |-> Op, g |-> G, face |-> Face, kv |-> KV,
                                  shapes |-> [k \in 1..Len(t[3]) |-> ShapeRec(Poly(Face, t[3][k], Step), k, KV)]])>>)
    ELSE LET recs == [k \in 1..Len(t[3]) |-> ShapeRec(t[3][k], k, KV)]
             qs == QuerySeq
             es == Explicit([k \in 1..Len(t[3]) |-> ShapeEdges(t[3][k])])
         IN  PrintT(<<"CASE", ToJson([op |-> Op, g |-> G, face |-> Face, kv |-> KV, shapes |-> recs,
                        queries |-> [n \in 1..Len(qs) |->
                            [q |-> qs[n],
                             \* per shape: edges that certainly cross / are not decided (on the query's face)
                             y |-> [k \in 1..Len(t[3]) |-> CrossingsY(qs[n], es[k])],
                             u |-> [k \in 1..Len(t[3]) |-> CrossingsU(qs[n], es[k])]]]])>>)
=============================================================================
