---------------------- MODULE Trace_IndexConcurrency -----------------------
(* Trace validation for C14: the gate events recorded from real goroutines   *)
(* (process, gate, next gate) must be a behaviour of IndexConcurrency.       *)
(* Many traces are concatenated; a change of the trace number resets the     *)
(* state.  Every event is fully logged, so validation is linear.  A trace    *)
(* line that no action of the specification explains leaves TLC without a    *)
(* successor state: with deadlock checking on, TLC reports the position.     *)
EXTENDS IndexConcurrency

CONSTANT TraceFile
Trace == ndJsonDeserialize(TraceFile)

VARIABLES l, cur
tvars == <<vars, l, cur>>

TraceInit ==
    /\ Init
    /\ l = 1 /\ cur = 0

TraceReset ==
    /\ l <= Len(Trace) /\ Trace[l].tr # cur
    /\ cur' = Trace[l].tr
    /\ status' = IF Trace[l].fresh THEN "fresh" ELSE "stale"
    /\ mutex' = 0
    /\ pending' = ~Trace[l].fresh /\ complete' = Trace[l].fresh
    /\ writer' = 0 /\ applies' = 0
    /\ pc' = [p \in Procs |-> "load"] /\ round' = [p \in Procs |-> 1]
    /\ badRead' = FALSE /\ h' = <<>>
    /\ UNCHANGED l

TraceEvent ==
    /\ l <= Len(Trace) /\ Trace[l].tr = cur
    /\ LET e == Trace[l]
       IN  /\ e.p \in Procs
           /\ pc[e.p] = e.l
           /\ Step(e.p)
           /\ pc'[e.p] = e.n
    /\ l' = l + 1 /\ UNCHANGED cur

TraceDone == l = Len(Trace) + 1 /\ UNCHANGED tvars

TraceNext == TraceReset \/ TraceEvent \/ TraceDone
=============================================================================
