---------------------------- MODULE Gen_CellIndex ----------------------------
(***************************************************************************)
(* C11: generator for CellIndex.  The indexes to build are given by the    *)
(* driver as sets of integers (one integer per (cell,label) pair:          *)
(* (cell*NL + label)*4 + copy, copy distinguishing duplicates).            *)
(*   - every initial state prints the expected static structure of the     *)
(*     index ("cindex": ranges, contents, monotone sweep with              *)
(*     de-duplication, Seek results);                                      *)
(*   - behaviours of the iterator state machine of CellIndex.tla are       *)
(*     printed by FinishAct ("citer") when the history is MaxLen long.     *)
(***************************************************************************)
EXTENDS CellIndex, Json

CONSTANT Given       \* set of sets of pair codes
CONSTANT NL          \* number of labels
CONSTANT NEs         \* kinds of range iterator to explore: subset of BOOLEAN

PairsFromSet(g) ==
    LET s == SetToSortSeq(g, <)
    IN  [k \in 1..Len(s) |-> [c |-> (s[k] \div 4) \div NL, l |-> (s[k] \div 4) % NL]]

Init == InitWith({PairsFromSet(g) : g \in Given}, NEs)

\* a monotone sweep over all ranges with one contents iterator, every range drained
RECURSIVE Sweep(_, _)
Sweep(k, cut) ==
    IF k > NR THEN <<>>
    ELSE LET rep == ChainAbove(ix.tree, ix.ranges[k].contents, cut)
         IN  <<PairsOfChain(ix.tree, rep)>> \o Sweep(k + 1, IF Len(rep) > 0 THEN ix.ranges[k].contents ELSE cut)

IndexCase ==
    [op |-> "cindex", L |-> L, NF |-> NF, lo |-> LoAtBegin, hi |-> HiAtEnd,
     pairs |-> [k \in 1..Len(pairs) |-> <<pairs[k].c, pairs[k].l>>],
     starts |-> [k \in 1..NR |-> ix.ranges[k].start],
     contents |-> [k \in 1..NR |-> PairsOfChain(ix.tree, Chain(ix.tree, ix.ranges[k].contents))],
     sweep |-> Sweep(1, 0),
     seek |-> [x \in 1..(HiSpecial - LoSpecial) |-> SeekPos(LoSpecial + x - 1)],
     seekne |-> [x \in 1..(HiSpecial - LoSpecial) |-> SkipEmptyB(SeekPos(LoSpecial + x - 1), TRUE)]]

EmitIndex == IF ~positioned /\ h = <<>> /\ nonEmpty = (CHOOSE b \in NEs : TRUE)
             THEN PrintT(<<"CASE", ToJson(IndexCase)>>) ELSE TRUE

BuildTheorem == (~positioned /\ h = <<>>) => RangeLaws(pairs)

FinishAct ==
    /\ MaxLen > 0 /\ Len(h) = MaxLen
    /\ PrintT(<<"HIST", ToJson([op |-> "citer", L |-> L, NF |-> NF, lo |-> LoAtBegin, hi |-> HiAtEnd, ne |-> nonEmpty,
                                pairs |-> [k \in 1..Len(pairs) |-> <<pairs[k].c, pairs[k].l>>],
                                steps |-> h])>>)
    /\ UNCHANGED vars

\* for runs that only print the static structure of every given index
NoStep == FALSE /\ UNCHANGED vars

GNext == Step \/ FinishAct
=============================================================================
