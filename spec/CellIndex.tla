------------------------------ MODULE CellIndex ------------------------------
(***************************************************************************)
(* C11: s2.CellIndex - Build and the range / non-empty-range / contents    *)
(* iterators, written like s2/cell_index.go (same bookkeeping: pos,        *)
(* nodeCutoff, nextNodeCutoff, prevStartID, the copied current node), plus *)
(* the specified observable behaviour as theorems over all call sequences: *)
(*   - the ranges partition the curve, their boundaries are exactly the    *)
(*     ends of the indexed cells plus the two ends of the curve, and the   *)
(*     contents of a range are exactly the (cell,label) pairs whose cell   *)
(*     covers it (RangeLaws);                                              *)
(*   - a fully drained range has had all its pairs reported since the last *)
(*     Clear (at least once), and while ranges are visited in increasing   *)
(*     order and drained completely no pair is reported twice.             *)
(*                                                                         *)
(* Positions are model leaf positions 0..NLeaves; -1 stands for the part   *)
(* of the real curve before model root 0 (when LoAtBegin is FALSE) and     *)
(* NLeaves+1 for the real end of the curve when the model roots do not end *)
(* there (HiAtEnd FALSE).  Tree indices are 1-based, 0 = none (Go: -1).    *)
(***************************************************************************)
EXTENDS CellUnions, Integers

CONSTANT LoAtBegin    \* model position 0 is the first leaf of face 0
CONSTANT HiAtEnd      \* model position NLeaves is the end of face 5

LoSpecial == IF LoAtBegin THEN 0 ELSE -1
HiSpecial == IF HiAtEnd THEN NLeaves ELSE NLeaves + 1
SentinelKey == 1000000      \* SentinelCellID: larger than every cell id

\* ---- Build ---------------------------------------------------------------------
\* pairs: sequence of [c |-> cell index, l |-> label >= 0] in Add order
Deltas(pairs) ==
    LET push == [k \in 1..Len(pairs) |-> [start |-> LoI[pairs[k].c], key |-> KeyI[pairs[k].c], cell |-> pairs[k].c, label |-> pairs[k].l]]
        pop == [k \in 1..Len(pairs) |-> [start |-> HiI[pairs[k].c], key |-> SentinelKey, cell |-> -1, label |-> -1]]
        special == <<[start |-> LoSpecial, key |-> 0, cell |-> -1, label |-> -1],
                     [start |-> HiSpecial, key |-> 0, cell |-> -1, label |-> -1]>>
    IN  push \o pop \o special

\* sorted by start, then by cell id descending, then by label
DeltaLess(a, b) ==
    \/ a.start < b.start
    \/ a.start = b.start /\ a.key > b.key
    \/ a.start = b.start /\ a.key = b.key /\ a.label < b.label

RECURSIVE BuildFrom(_, _, _)
\* st = [tree, ranges, contents]; processes ds[i..]
BuildFrom(ds, i, st) ==
    IF i > Len(ds) THEN st
    ELSE LET d == ds[i]
             tree2 == IF d.label >= 0 THEN Append(st.tree, [c |-> d.cell, l |-> d.label, p |-> st.contents]) ELSE st.tree
             cont2 == IF d.label >= 0 THEN Len(tree2)
                      ELSE IF d.key = SentinelKey THEN st.tree[st.contents].p
                      ELSE st.contents
             lastOfGroup == i = Len(ds) \/ ds[i + 1].start # d.start
             ranges2 == IF lastOfGroup THEN Append(st.ranges, [start |-> d.start, contents |-> cont2]) ELSE st.ranges
         IN  BuildFrom(ds, i + 1, [tree |-> tree2, ranges |-> ranges2, contents |-> cont2])

Build(pairs) == BuildFrom(SortSeq(Deltas(pairs), DeltaLess), 1, [tree |-> <<>>, ranges |-> <<>>, contents |-> 0])

\* chain of tree nodes from n to the root
RECURSIVE Chain(_, _)
Chain(tree, n) == IF n = 0 THEN <<>> ELSE <<n>> \o Chain(tree, tree[n].p)
\* the part of the chain above the cutoff (what the contents iterator reports)
RECURSIVE ChainAbove(_, _, _)
ChainAbove(tree, n, cutoff) == IF n <= cutoff THEN <<>> ELSE <<n>> \o ChainAbove(tree, tree[n].p, cutoff)

PairOf(tree, n) == <<tree[n].c, tree[n].l>>
PairsOfChain(tree, ch) == [k \in 1..Len(ch) |-> PairOf(tree, ch[k])]

\* ---- specified observable behaviour of Build ------------------------------------------
BagOfSeq(s) == [x \in Rng(s) |-> Cardinality({k \in 1..Len(s) : s[k] = x})]
RangeLaws(pairs) ==
    LET b == Build(pairs)
        rs == b.ranges
        n == Len(rs)
    IN  /\ n >= 2 /\ rs[1].start = LoSpecial /\ rs[n].start = HiSpecial /\ rs[n].contents = 0
        /\ \A k \in 1..(n - 1) : rs[k].start < rs[k + 1].start
        /\ {rs[k].start : k \in 1..n} =
              {LoSpecial, HiSpecial} \cup {LoI[pairs[k].c] : k \in 1..Len(pairs)} \cup {HiI[pairs[k].c] : k \in 1..Len(pairs)}
        /\ Len(b.tree) = Len(pairs)
        /\ \A k \in 1..(n - 1) :
              LET x == rs[k].start
                  cover == SelectSeq(pairs, LAMBDA q : LoI[q.c] <= x /\ x < HiI[q.c])
                  got == PairsOfChain(b.tree, Chain(b.tree, rs[k].contents))
              IN  /\ BagOfSeq(got) = BagOfSeq([j \in 1..Len(cover) |-> <<cover[j].c, cover[j].l>>])
                  \* ancestors contain descendants, innermost first
                  /\ \A j \in 1..(Len(got) - 1) : LeavesI[got[j][1]] \subseteq LeavesI[got[j + 1][1]]
        \* preorder: a parent has a smaller index than its children
        /\ \A j \in 1..Len(b.tree) : b.tree[j].p < j

\* ---- the iterators as a state machine ----------------------------------------------------
CONSTANT MaxLen            \* history bound; 0 = no history (exhaustive state exploration)
CONSTANT SeekSet           \* Seek targets used when exploring behaviours

VARIABLES pairs, ix,       \* the input and the built index (constant during a behaviour)
          nonEmpty,        \* kind of range iterator
          positioned, pos, \* range iterator (pos is 1-based: Go pos + 1)
          cutoff, nextCutoff, prevStart, node,   \* contents iterator
          seen, dup, mono, allFull,              \* ghosts for the theorems
          h
vars == <<pairs, ix, nonEmpty, positioned, pos, cutoff, nextCutoff, prevStart, node, seen, dup, mono, allFull, h>>

DoneNode == [c |-> -1, l |-> -1, p |-> 0]
NR == Len(ix.ranges)
RDone(p) == p >= NR
REmpty(p) == ix.ranges[p].contents = 0
\* skip forward over empty ranges (the loop of Begin/Next/Seek)
RECURSIVE SkipEmptyB(_, _)
SkipEmptyB(p, ne) == IF ne /\ REmpty(p) /\ ~RDone(p) THEN SkipEmptyB(p + 1, ne) ELSE p
SkipEmpty(p) == SkipEmptyB(p, nonEmpty)

\* what the harness observes of the range iterator at position p
Obs(p) == [start |-> ix.ranges[p].start, done |-> RDone(p), empty |-> REmpty(p),
           limit |-> IF RDone(p) THEN -9 ELSE ix.ranges[p + 1].start]

Log(e) == IF MaxLen = 0 THEN h ELSE Append(h, e)
CanStep == MaxLen = 0 \/ Len(h) < MaxLen

InitWith(P, NE) ==
    /\ pairs \in P /\ ix = Build(pairs) /\ nonEmpty \in NE
    /\ positioned = FALSE /\ pos = 1
    /\ cutoff = 0 /\ nextCutoff = 0 /\ prevStart = -2 /\ node = DoneNode
    /\ seen = {} /\ dup = FALSE /\ mono = TRUE /\ allFull = TRUE
    /\ h = <<>>

UnchangedC == UNCHANGED <<cutoff, nextCutoff, prevStart, node, seen, dup, mono, allFull>>
Fixed == UNCHANGED <<pairs, ix, nonEmpty>>

MoveTo(p, act, arg, ret) ==
    /\ pos' = p /\ positioned' = TRUE
    /\ h' = Log([a |-> act, x |-> arg, r |-> ret, o |-> Obs(p)])
    /\ UnchangedC /\ Fixed

Begin == MoveTo(SkipEmpty(1), "Begin", 0, TRUE)
RNext == positioned /\ ~RDone(pos) /\ MoveTo(SkipEmpty(pos + 1), "Next", 0, TRUE)
Finish == MoveTo(NR, "Finish", 0, TRUE)
Advance(n) == positioned /\ IF n >= NR - pos THEN MoveTo(pos, "Advance", n, FALSE) ELSE MoveTo(pos + n, "Advance", n, TRUE)

\* Seek: the last range whose start is <= target (or the first range), then skip empties
SeekPos(x) == LET c == {k \in 1..NR : ix.ranges[k].start <= x}
              IN  IF c = {} THEN 1 ELSE CHOOSE k \in c : \A j \in c : j <= k
Seek(x) == MoveTo(SkipEmpty(SeekPos(x)), "Seek", x, TRUE)

\* Prev / nonEmptyPrev
RECURSIVE BackToNonEmpty(_)
\* result of the loop "for c.prev() { if !c.IsEmpty() {return true} }": <<found, position>>
BackToNonEmpty(p) == IF p = 1 THEN <<FALSE, 1>>
                     ELSE IF ~REmpty(p - 1) THEN <<TRUE, p - 1>> ELSE BackToNonEmpty(p - 1)
Prev ==
    /\ positioned
    /\ IF ~nonEmpty
       THEN IF pos = 1 THEN MoveTo(1, "Prev", 0, FALSE) ELSE MoveTo(pos - 1, "Prev", 0, TRUE)
       ELSE LET b == BackToNonEmpty(pos)
            IN  IF b[1] THEN MoveTo(b[2], "Prev", 0, TRUE)
                ELSE \* "return the iterator to its original position": Next() from position 1
                     IF REmpty(1) /\ ~RDone(1) THEN MoveTo(SkipEmpty(2), "Prev", 0, FALSE)
                     ELSE MoveTo(1, "Prev", 0, FALSE)

\* StartUnion(r) followed by reading the pairs; full: Next is called until Done,
\* otherwise only the first pair is read (nodeCutoff is then not advanced).
Visit(full) ==
    /\ positioned
    /\ LET start == ix.ranges[pos].start
           cut1 == IF start < prevStart THEN 0 ELSE cutoff
           contents == ix.ranges[pos].contents
           rep == ChainAbove(ix.tree, contents, cut1)      \* nodes a full drain reports
           shown == IF full \/ Len(rep) = 0 THEN rep ELSE <<rep[1]>>
           drained == full /\ Len(rep) > 0                  \* the final Next() ran
       IN  /\ prevStart' = start
           /\ nextCutoff' = contents
           /\ cutoff' = IF drained THEN contents ELSE cut1
           /\ node' = IF Len(rep) = 0 THEN [node EXCEPT !.l = -1]
                      ELSE IF drained THEN [ix.tree[rep[Len(rep)]] EXCEPT !.l = -1]
                      ELSE ix.tree[rep[1]]
           /\ seen' = seen \cup Rng(shown)
           /\ dup' = (dup \/ Rng(shown) \cap seen # {})
           /\ mono' = (mono /\ (prevStart <= start))
           /\ allFull' = (allFull /\ (full \/ Len(rep) = 0))
           /\ h' = Log([a |-> IF full THEN "Visit" ELSE "Peek", x |-> 0, r |-> TRUE, o |-> Obs(pos),
                        rep |-> PairsOfChain(ix.tree, shown)])
    /\ UNCHANGED <<pos, positioned>> /\ Fixed

Clear ==
    /\ prevStart' = -2 /\ cutoff' = 0 /\ nextCutoff' = 0 /\ node' = [node EXCEPT !.l = -1]
    /\ seen' = {} /\ dup' = FALSE /\ mono' = TRUE /\ allFull' = TRUE
    /\ h' = Log([a |-> "Clear", x |-> 0, r |-> TRUE, o |-> Obs(pos)])
    /\ UNCHANGED <<pos, positioned>> /\ Fixed

SeekTargets == LoSpecial..(HiSpecial - 1)
\* targets tried by the explored behaviours (all targets are covered by the static cases)
\* (SeekSet holds target + 1: cfg files cannot express negative numbers)
ExploredSeeks == {x \in SeekTargets : (x + 1) \in SeekSet}

Step ==
    /\ CanStep
    /\ \/ Begin \/ RNext \/ Finish \/ Prev
       \/ \E n \in 1..2 : Advance(n)
       \/ \E x \in ExploredSeeks : Seek(x)
       \/ Visit(TRUE) \/ Visit(FALSE) \/ Clear

\* ---- theorems over all call sequences ------------------------------------------------------
TypeOK == pos \in 1..NR /\ cutoff \in 0..Len(ix.tree) /\ nextCutoff \in 0..Len(ix.tree)
\* a positioned non-empty iterator never rests on an empty range unless done or moved by Advance
NonEmptyLaw ==
    (nonEmpty /\ positioned /\ MaxLen > 0 /\ Len(h) > 0 /\ h[Len(h)].a \in {"Begin", "Next", "Seek"})
        => (RDone(pos) \/ ~REmpty(pos))
\* at least once: right after a full visit every pair of the range has been reported since Clear
AtLeastOnce ==
    (MaxLen > 0 /\ Len(h) > 0 /\ h[Len(h)].a = "Visit")
        => Rng(Chain(ix.tree, ix.ranges[pos].contents)) \subseteq seen
\* exactly once while ranges are visited in increasing order and drained
ExactlyOnce == (mono /\ allFull) => ~dup
\* the state-only form of AtLeastOnce usable without history: everything at or below the
\* cutoff that lies on the chain of any range at or after prevStart has been reported
CutoffSound ==
    allFull => \A k \in 1..NR : ix.ranges[k].start >= prevStart =>
        \A n \in Rng(Chain(ix.tree, ix.ranges[k].contents)) : n <= cutoff => n \in seen
=============================================================================
