------------------------------ MODULE EdgeQuery ------------------------------
(***************************************************************************)
(* C08: the closest/furthest edge search of s2/edge_query.go as a state    *)
(* machine over an ABSTRACT index.                                         *)
(*                                                                         *)
(* Abstract index ("scene"): a quadtree whose roots are the cube faces;    *)
(* a cell is the sequence <<face, k1, ..., kl>> (prefix order = ancestor   *)
(* order, lexicographic order = CellID order).  The index cells are an     *)
(* antichain of tree nodes; every edge lies in one or more index cells     *)
(* (an edge that spans several cells is the reason for duplicate results); *)
(* every edge has an integer distance d[e] to the target, every tree node  *)
(* a lower bound lb[c] on the distance of the target to the cell.  The     *)
(* bound is ADMISSIBLE: every edge has a witness cell (the index cell      *)
(* holding its closest point) which, like all its ancestors, has           *)
(* lb <= d[e].  Nothing else is assumed: lb of the other cells of a        *)
(* spanning edge may exceed d[e], lb need not be monotone.                 *)
(*                                                                         *)
(* "distance" is the abstract order of the distance interface, so the same *)
(* machine describes NewClosestEdgeQuery (minDistance) and                 *)
(* NewFurthestEdgeQuery (maxDistance: zero = Straight, less = greater,     *)
(* sub = add); 0 is distance.zero(), INF distance.infinity().              *)
(*                                                                         *)
(* Targets that take advantage of maxError (ShapeIndex targets: tUses)     *)
(* report distances up to maxError above the truth, possibly a different   *)
(* value each time the same edge is measured; this is why duplicates have  *)
(* to be avoided explicitly (testedEdges) for them.                        *)
(*                                                                         *)
(* The actions follow edge_query.go: findEdgesInternal (Start),            *)
(* findEdgesBruteForce, initQueue (InitQueue1/2, with initCovering and the *)
(* search-disc intersection), the loop of findEdgesOptimized (Pop with     *)
(* processEdges / split into children), processOrEnqueue (DoCell),         *)
(* maybeAddResult/addResult (DoEdge) with the distanceLimit tightening for *)
(* maxResults = 1, and the post-processing of findEdges (Post: sort,       *)
(* unique, truncate).                                                      *)
(*                                                                         *)
(* AsImplemented is a set of tags; each tag replaces the correct           *)
(* behaviour by the literal transcription of what the pinned tree did      *)
(* before the fix: commit named with it (regression models):               *)
(*   "break"    initCovering left its loop after the first top-level cell  *)
(*              (fixed by e6edaf0)                                         *)
(*   "dup"      maybeAddResult: `avoidDuplicates && !ok` and no insertion  *)
(*              (fixed by 3d5e407)                                         *)
(*   "capbound" MinDistanceToShapeIndexTarget.capBound was the antipodal   *)
(*              cap: search disc unrelated to the target (38223d4)         *)
(*   "nosat"    distance.sub did not saturate: once the limit was below    *)
(*              zero an edge target still "improved" it for a crossing     *)
(*              edge (true distance 0) and reported the stale limit as the *)
(*              distance of that edge (fixed by 8676a07)                   *)
(*   "nocons"   (seeded change C08-seed2, not in the tree) the conservative *)
(*              cell distance is switched on by `maxError < distanceLimit` *)
(*              on the raw chord angles; for furthest-edge queries         *)
(*              infinity is the NEGATIVE chord angle, so an unlimited      *)
(*              search never subtracts maxError from its cell bounds       *)
(*   "descid"   (seeded change C08-seed3, not in the tree) initQueue       *)
(*              enqueues the index cell that contains an initial cell of   *)
(*              the search disc under the id of that (smaller) initial     *)
(*              cell: its bound is measured against the small cell and is  *)
(*              no lower bound for the edges of the index cell             *)
(* With AsImplemented = {} TLC proves the invariants below on all scenes   *)
(* within the bounds; with a tag TLC prints a counterexample behaviour.    *)
(***************************************************************************)
EXTENDS Integers, Sequences, FiniteSets, FiniteSetsExt, SequencesExt, TLC

CONSTANTS
    Faces,          \* faces that may carry index cells (subset of 1..6)
    Fanout,         \* children per cell (4 in S2; 2..3 keeps TLC small)
    Depth,          \* deepest level of an index cell (0: face cells only)
    MaxCells,       \* at most this many index cells
    NEdges,         \* edges are 1..NEdges
    DMax,           \* true distances are 0..DMax
    NShapes,        \* polygons that may contain the target: 0..NShapes of them do
    MaxResultsSet,  \* option values, INF = unlimited
    LimitSet,       \* distance limits, INF = none, 0 = zero
    MaxErrSet,      \* permitted errors (0 = exact; INF models IsDistanceLess)
    BruteSet,       \* subset of BOOLEAN: useBruteForce / small index
    MinEnq,         \* minEdgesToEnqueue (10 in the code)
    MaxDisc,        \* at most this many cells in the covering of the search disc
    MaxSpan,        \* an edge lies in at most this many index cells
    AsImplemented   \* subset of {"break", "dup", "capbound", "nosat", "nocons", "descid"}

INF == 1000
MinOf(a, b) == IF a < b THEN a ELSE b
None == <<>>

ASSUME Faces \subseteq 1..6 /\ Fanout \in 1..4 /\ Depth \in 0..3 /\ DMax < 100
ASSUME AsImplemented \subseteq {"break", "dup", "capbound", "nosat", "nocons", "descid"}

(***************************************************************************)
(* The cell tree                                                           *)
(***************************************************************************)
CellsAt(l) == {<<f>> \o p : f \in Faces, p \in [1..l -> 1..Fanout]}
AllCells == UNION {CellsAt(l) : l \in 0..Depth}
Related(a, b) == IsPrefix(a, b) \/ IsPrefix(b, a)
Antichain(S) == \A a \in S, b \in S : a # b => ~Related(a, b)
AncSelf(c) == {SubSeq(c, 1, k) : k \in 1..Len(c)}
Under(t, S) == {c \in S : IsPrefix(t, c)}
\* CellID order on unrelated cells (lexicographic)
CellLess(a, b) ==
    \E k \in 1..(IF Len(a) < Len(b) THEN Len(a) ELSE Len(b)) :
        /\ \A j \in 1..(k-1) : a[j] = b[j]
        /\ a[k] < b[k]
\* id.RangeMax() < x : the cell lies entirely before x
Before(a, b) == ~Related(a, b) /\ CellLess(a, b)
SortCells(S) == SetToSortSeq(S, LAMBDA a, b : CellLess(a, b) \/ (IsPrefix(a, b) /\ a # b))
LCP(S) == LongestCommonPrefix(S)
Children(c) == {Append(c, k) : k \in 1..Fanout}
\* the code visits children in the order 1, 0, 3, 2
ChildOrder == SelectSeq(<<2, 1, 4, 3>>, LAMBDA k : k <= Fanout)

(***************************************************************************)
(* initCovering.  Specification: if the index has one cell, that cell;     *)
(* otherwise take the level just below the lowest common ancestor of all   *)
(* index cells (the faces if there is none) and emit, for every cell of    *)
(* that level that contains index cells, the smallest cell covering them.  *)
(***************************************************************************)
TopLen(cells) == Len(LCP(cells)) + 1      \* prefix length of the top-level cells
Tops(cells) == {SubSeq(c, 1, TopLen(cells)) : c \in cells}
CoveringSpec(cells) ==
    IF Cardinality(cells) = 1 THEN SortCells(cells)
    ELSE SortCells({LCP(Under(t, cells)) : t \in Tops(cells)})

\* As implemented: `break` after the first top-level cell, then
\* addInitialRange(next, last) over ALL remaining index cells; for a range without
\* common ancestor CommonAncestorLevel's failure is ignored and level 0 is used.
CoveringImpl(cells) ==
    IF Cardinality(cells) = 1 THEN SortCells(cells)
    ELSE LET srt == SortCells(cells)
             t1 == SubSeq(srt[1], 1, TopLen(cells))
             g1 == Under(t1, cells)
             rest == cells \ g1
             r == SortCells(rest)
             second == IF Cardinality(rest) = 1 THEN r[1]
                       ELSE IF r[1][1] = r[Len(r)][1] THEN LCP({r[1], r[Len(r)]})
                       ELSE <<r[1][1]>>
         IN  <<LCP(g1), second>>

Covering(cells) == IF "break" \in AsImplemented THEN CoveringImpl(cells) ELSE CoveringSpec(cells)

\* what a top-level covering has to be
CoveringGood(cells, cov) ==
    LET S == {cov[i] : i \in 1..Len(cov)}
    IN  /\ Cardinality(S) = Len(cov) /\ Antichain(S)
        /\ \A c \in cells : \E t \in S : IsPrefix(t, c)            \* nothing is lost
        /\ \A t \in S : Under(t, cells) # {} /\ t = LCP(Under(t, cells))   \* tight
        /\ {c[1] : c \in cells} = {t[1] : t \in S}                  \* every face that has cells
        /\ Len(cov) <= (IF Cardinality({c[1] : c \in cells}) > 1 THEN 6 ELSE Fanout)
        /\ \A i \in 1..(Len(cov)-1) : CellLess(cov[i], cov[i+1])    \* sorted

(***************************************************************************)
(* State                                                                   *)
(***************************************************************************)
VARIABLES
    pc,       \* control: scene construction, then the phases of findEdges
    scene,    \* [cells, inc, d, lb, inside] (while it is built: [cells, inc, wit, d, lbs])
    opts,     \* [mr, limit, err, inc, brute, tUses, center]
    limit,    \* e.distanceLimit
    results,  \* e.results: sequence of [d, s, e]   (s = 0: an edge; e = -1: interior of shape s)
    tested,   \* e.testedEdges
    queue,    \* e.queue: sequence of [d, id, idx] (popped by minimum d)
    work,     \* pending calls of the current phase: [t |-> "e", e] maybeAddResult, [t |-> "c", id, idx] processOrEnqueue
    flags     \* [useME, cons, avoidDup]
vars == <<pc, scene, opts, limit, results, tested, queue, work, flags>>

Edges == 1..NEdges
NoFlags == [useME |-> FALSE, cons |-> FALSE, avoidDup |-> FALSE]

Init ==
    /\ pc = "scene-cells"
    /\ scene = [cells |-> {}]
    /\ opts = None /\ limit = INF /\ results = <<>> /\ tested = {} /\ queue = <<>> /\ work = <<>>
    /\ flags = NoFlags

\* ---- scene construction (several steps so that TLC spreads it over its workers)
ChooseCells ==
    /\ pc = "scene-cells"
    /\ \E n \in 1..MinOf(MaxCells, Cardinality(AllCells)) : \E S \in kSubset(n, AllCells) :
        /\ Antichain(S)
        /\ scene' = [cells |-> S, inc |-> <<>>, wit |-> <<>>, d |-> <<>>, lbs |-> <<>>]
    /\ pc' = "scene-edges"
    /\ UNCHANGED <<opts, limit, results, tested, queue, work, flags>>

Nodes(cells) == UNION {AncSelf(c) : c \in cells}

\* one edge at a time: the index cells it lies in, its witness cell (the cell holding its
\* closest point) and its distance
ChooseEdge ==
    /\ pc = "scene-edges"
    /\ \E S \in {S \in SUBSET scene.cells : S # {} /\ Cardinality(S) <= MaxSpan} :
       \E w \in S : \E x \in 0..DMax :
          scene' = [cells |-> scene.cells, inc |-> Append(scene.inc, S), wit |-> Append(scene.wit, w),
                    d |-> Append(scene.d, x), lbs |-> <<>>]
    /\ pc' = IF Len(scene.inc) + 1 = NEdges THEN "scene-bounds" ELSE "scene-edges"
    /\ UNCHANGED <<opts, limit, results, tested, queue, work, flags>>

\* c can be the witness cell of e under the bounds lb
Witness(sc, lb, c, e) == c \in sc.inc[e] /\ \A a \in AncSelf(c) : lb[a] <= sc.d[e]
Admissible(sc, lb) == \A e \in Edges : \E c \in sc.cells : Witness(sc, lb, c, e)
\* bounds of cells without any edge below them are never looked at: fixed to 0
Relevant(sc, a) == \E e \in Edges : \E c \in sc.inc[e] : IsPrefix(a, c)
NodeSeq(cells) == SortCells(Nodes(cells))

\* one tree node at a time: any bound that keeps the chosen witness cells admissible.
\* (Every admissible bound function arises this way; the witness choice is forgotten
\* afterwards, the algorithm may rely on admissibility only.)
ChooseBound ==
    /\ pc = "scene-bounds"
    /\ LET ns == NodeSeq(scene.cells)
           a == ns[Len(scene.lbs) + 1]
           caps == {scene.d[e] : e \in {x \in Edges : a \in AncSelf(scene.wit[x])}} \cup {DMax}
           hi == IF Relevant(scene, a) THEN Min(caps) ELSE 0
       IN  \E v \in 0..hi :
             IF Len(scene.lbs) + 1 < Len(ns)
             THEN /\ scene' = [scene EXCEPT !.lbs = Append(@, v)]
                  /\ pc' = "scene-bounds"
             ELSE \E inside \in SUBSET (1..NShapes) :
                  /\ scene' = [cells |-> scene.cells, inc |-> scene.inc, d |-> scene.d,
                               lb |-> [n \in Nodes(scene.cells) |->
                                         Append(scene.lbs, v)[CHOOSE i \in 1..Len(ns) : ns[i] = n]],
                               inside |-> inside]
                  /\ pc' = "options"
    /\ UNCHANGED <<opts, limit, results, tested, queue, work, flags>>

ChooseOptions ==
    /\ pc = "options"
    /\ \E mr \in MaxResultsSet, lim \in LimitSet, er \in MaxErrSet, inc \in BOOLEAN, br \in BruteSet :
       \E tu \in BOOLEAN :                      \* does the target take advantage of maxError
       \E center \in scene.cells \cup {None} :  \* the index cell under the centre of the target's cap bound
        /\ (NShapes = 0 => inc)                 \* irrelevant without polygons
        /\ (er = 0 => ~tu)                      \* irrelevant without a permitted error
        /\ (mr # 1 \/ br => center = None)      \* only looked at for maxResults = 1
        /\ opts' = [mr |-> mr, limit |-> lim, err |-> er, inc |-> inc, brute |-> br,
                    tUses |-> tu, center |-> center]
    /\ pc' = "start"
    /\ UNCHANGED <<scene, limit, results, tested, queue, work, flags>>

\* ---- helpers of the algorithm --------------------------------------------
EdgesOfCell(c) == {e \in Edges : c \in scene.inc[e]}
EdgeItems(c) == [i \in 1..Cardinality(EdgesOfCell(c)) |->
                    [t |-> "e", e |-> SetToSortSeq(EdgesOfCell(c), <)[i]]]
\* loose: the bound is measured against some smaller cell (tag "descid"): any value from the
\* true bound upwards
CellItem(id) == [t |-> "c", id |-> id, idx |-> id \in scene.cells, loose |-> FALSE]
HasIndexCells(id) == \E c \in scene.cells : IsPrefix(id, c)

\* the value a target may report for a true distance x that is below the limit lim
\* (values above DMax + 1 are not distinguished: they are beyond every true distance)
Measured(x, lim, useME) ==
    IF useME THEN {m \in x..(IF x + opts.err > DMax + 1 THEN DMax + 1 ELSE x + opts.err) : m < lim} ELSE {x}

\* addResult
AddResult(r) ==
    /\ results' = Append(results, r)
    /\ limit' = IF opts.mr = 1 THEN r.d - opts.err ELSE limit

(***************************************************************************)
(* findEdgesInternal up to the choice of the algorithm                     *)
(***************************************************************************)
Start ==
    /\ pc = "start"
    /\ tested' = {} /\ queue' = <<>>
    /\ IF opts.limit = 0
       THEN /\ pc' = "post" /\ results' = <<>> /\ limit' = 0 /\ work' = <<>> /\ flags' = NoFlags
       ELSE \* includeInteriors: shapes containing the target, at most maxResults of them
            \E V \in SUBSET (IF opts.inc THEN scene.inside ELSE {}) :
              /\ Cardinality(V) = (IF opts.inc /\ Cardinality(scene.inside) < opts.mr
                                   THEN Cardinality(scene.inside)
                                   ELSE IF opts.inc THEN opts.mr ELSE 0)
              /\ LET vs == SetToSortSeq(V, <)
                     res == [i \in 1..Len(vs) |-> [d |-> 0, s |-> vs[i], e |-> -1]]
                     lim1 == IF opts.mr = 1 /\ V # {} THEN 0 - opts.err ELSE opts.limit
                     useME == opts.err # 0 /\ opts.tUses
                     cons == IF "nocons" \in AsImplemented
                             THEN useME /\ lim1 # INF /\ 0 < lim1 - opts.err
                             ELSE useME /\ (lim1 = INF \/ 0 < lim1 - opts.err)
                 IN  /\ results' = res /\ limit' = lim1
                     /\ IF lim1 = 0
                        THEN /\ pc' = "post" /\ work' = <<>> /\ flags' = NoFlags
                        ELSE IF opts.brute
                        THEN \* findEdgesBruteForce: every edge exactly once
                             /\ flags' = [useME |-> useME, cons |-> cons, avoidDup |-> FALSE]
                             /\ work' = [i \in 1..NEdges |-> [t |-> "e", e |-> i]]
                             /\ pc' = "brute"
                        ELSE /\ flags' = [useME |-> useME, cons |-> cons,
                                          avoidDup |-> useME /\ opts.mr > 1]
                             /\ work' = <<>>
                             /\ pc' = "initq1"
    /\ UNCHANGED <<scene, opts>>

(***************************************************************************)
(* maybeAddResult                                                          *)
(***************************************************************************)
DoEdge ==
    /\ work # <<>> /\ Head(work).t = "e"
    /\ LET e == Head(work).e
           seen == e \in tested
           skip == IF "dup" \in AsImplemented
                   THEN flags.avoidDup /\ ~seen        \* `e.avoidDuplicates && !ok`
                   ELSE flags.avoidDup /\ seen
       IN  /\ work' = Tail(work)
           /\ IF skip
              THEN UNCHANGED <<results, limit, tested>>
              ELSE /\ tested' = IF flags.avoidDup /\ "dup" \notin AsImplemented
                                THEN tested \cup {e} ELSE tested
                   /\ IF scene.d[e] < limit        \* updateDistanceToEdge(edge, distanceLimit)
                      THEN \E m \in Measured(scene.d[e], limit, flags.useME) :
                              AddResult([d |-> m, s |-> 0, e |-> e])
                      ELSE IF "nosat" \in AsImplemented /\ limit < 0 /\ scene.d[e] = 0
                      THEN AddResult([d |-> limit, s |-> 0, e |-> e])   \* the stale limit as a distance
                      ELSE UNCHANGED <<results, limit>>
    /\ UNCHANGED <<pc, scene, opts, queue, flags>>

(***************************************************************************)
(* processOrEnqueue                                                        *)
(***************************************************************************)
DoCell ==
    /\ work # <<>> /\ Head(work).t = "c"
    /\ LET it == Head(work)
           n == Cardinality(EdgesOfCell(it.id))
       IN  IF it.idx /\ n = 0
           THEN work' = Tail(work) /\ UNCHANGED queue
           ELSE IF it.idx /\ n < MinEnq
           THEN \* few edges: test them right away
                work' = EdgeItems(it.id) \o Tail(work) /\ UNCHANGED queue
           ELSE /\ work' = Tail(work)
                /\ \E bound \in (IF it.loose THEN scene.lb[it.id]..(DMax + 1) ELSE {scene.lb[it.id]}) :
                   IF bound < limit       \* updateDistanceToCell(cell, distanceLimit)
                   THEN \E cm \in Measured(bound, limit, flags.useME) :
                          queue' = Append(queue, [d |-> IF flags.cons THEN cm - opts.err ELSE cm,
                                                  id |-> it.id, idx |-> it.idx])
                   ELSE UNCHANGED queue
    /\ UNCHANGED <<pc, scene, opts, limit, results, tested, flags>>

Brute ==
    /\ pc = "brute" /\ work = <<>>
    /\ pc' = "post"
    /\ UNCHANGED <<scene, opts, limit, results, tested, queue, work, flags>>

(***************************************************************************)
(* initQueue                                                               *)
(***************************************************************************)
\* first part: for maxResults = 1 look at the index cell under the centre of the
\* target's bounding cap first, to get a small distance limit early
InitQueue1 ==
    /\ pc = "initq1" /\ work = <<>>
    /\ work' = IF opts.mr = 1 /\ opts.center # None THEN EdgeItems(opts.center) ELSE <<>>
    /\ pc' = "initq2"
    /\ UNCHANGED <<scene, opts, limit, results, tested, queue, flags>>

\* CellUnionFromIntersection(indexCovering, covering of the search disc)
Intersection(cov, disc) ==
    LET C == {cov[i] : i \in 1..Len(cov)}
    IN  {x \in disc : \E c \in C : IsPrefix(c, x)} \cup {c \in C : \E x \in disc : IsPrefix(x, c)}

\* The search disc (cap bound of the target grown by the distance limit) covers the
\* closest point of every edge that is closer than the limit, hence its covering
\* has a cell related to the witness cell of every such edge.
DiscSound(disc, lim) ==
    \A e \in Edges : scene.d[e] < lim =>
        \E x \in disc : \E c \in scene.cells : Witness(scene, scene.lb, c, e) /\ Related(x, c)

\* The clean-up loop of initQueue over the initial cells, as a function producing the
\* processOrEnqueue calls in order ("PANIC" if indexCovering[j] runs off the end).
RECURSIVE InitialItems(_, _, _, _)
InitialItems(ini, i, cov, j) ==
    IF i > Len(ini) THEN <<>>
    ELSE IF j > Len(cov) THEN <<[t |-> "PANIC"]>>
    ELSE IF Before(cov[j], ini[i]) THEN InitialItems(ini, i, cov, j + 1)
    ELSE IF ini[i] = cov[j] THEN <<CellItem(cov[j])>> \o InitialItems(ini, i + 1, cov, j + 1)
    ELSE LET above == {c \in scene.cells : IsPrefix(c, ini[i])}     \* LocateCellID = Indexed
         IN  IF above # {}
             THEN LET ic == CHOOSE c \in above : TRUE
                      nxt == CHOOSE k \in (i+1)..(Len(ini)+1) :
                                 /\ \A m \in (i+1)..(k-1) : IsPrefix(ic, ini[m])
                                 /\ (k <= Len(ini) => ~IsPrefix(ic, ini[k]))
                  IN  <<[t |-> "c", id |-> ic, idx |-> TRUE,
                         loose |-> "descid" \in AsImplemented /\ ic # ini[i]]>> \o InitialItems(ini, nxt, cov, j)
             ELSE IF HasIndexCells(ini[i])                            \* Subdivided
             THEN <<[t |-> "c", id |-> ini[i], idx |-> FALSE, loose |-> FALSE]>> \o InitialItems(ini, i + 1, cov, j)
             ELSE InitialItems(ini, i + 1, cov, j)                     \* Disjoint

DiscCandidates == {x \in AllCells : \E c \in scene.cells : Related(x, c)}

InitQueue2 ==
    /\ pc = "initq2" /\ work = <<>>
    /\ IF limit = 0          \* an intersecting edge was found in the centre cell
       THEN pc' = "post" /\ UNCHANGED work
       ELSE LET cov == Covering(scene.cells)
            IN  IF limit = INF
                THEN /\ work' = [i \in 1..Len(cov) |-> CellItem(cov[i])]
                     /\ pc' = "loop"
                ELSE \E n \in 0..MinOf(MaxDisc, Cardinality(DiscCandidates)) : \E disc \in kSubset(n, DiscCandidates) :
                        /\ Antichain(disc)
                        /\ "capbound" \in AsImplemented \/ DiscSound(disc, limit)
                        /\ LET items == InitialItems(SortCells(Intersection(cov, disc)), 1, cov, 1)
                           IN  IF \E k \in 1..Len(items) : items[k].t = "PANIC"
                               THEN pc' = "panic" /\ UNCHANGED work
                               ELSE pc' = "loop" /\ work' = items
    /\ UNCHANGED <<scene, opts, limit, results, tested, queue, flags>>

(***************************************************************************)
(* the loop of findEdgesOptimized                                          *)
(***************************************************************************)
Pop ==
    /\ pc = "loop" /\ work = <<>>
    /\ IF queue = <<>>
       THEN pc' = "post" /\ UNCHANGED <<queue, work>>
       ELSE \E i \in 1..Len(queue) :
              /\ \A j \in 1..Len(queue) : queue[i].d <= queue[j].d
              /\ LET en == queue[i]
                 IN  IF ~(en.d < limit)
                     THEN queue' = <<>> /\ pc' = "post" /\ UNCHANGED work
                     ELSE /\ queue' = RemoveAt(queue, i) /\ pc' = "loop"
                          /\ IF en.idx
                             THEN work' = EdgeItems(en.id)          \* processEdges
                             ELSE LET ks == SelectSeq(ChildOrder, LAMBDA k : HasIndexCells(Append(en.id, k)))
                                  IN  work' = [m \in 1..Len(ks) |-> CellItem(Append(en.id, ks[m]))]
    /\ UNCHANGED <<scene, opts, limit, results, tested, flags>>

(***************************************************************************)
(* findEdges: sort, unique, truncate                                       *)
(***************************************************************************)
ResLess(a, b) == IF a.d # b.d THEN a.d < b.d ELSE IF a.s # b.s THEN a.s < b.s ELSE a.e < b.e
SortResults(rs) ==
    LET idx == SetToSortSeq(1..Len(rs), LAMBDA i, j : ResLess(rs[i], rs[j]) \/ (rs[i] = rs[j] /\ i < j))
    IN  [k \in 1..Len(rs) |-> rs[idx[k]]]
Unique(rs) == SelectSeq([k \in 1..Len(rs) |-> IF k > 1 /\ rs[k] = rs[k-1] THEN None ELSE rs[k]],
                        LAMBDA r : r # None)
Post ==
    /\ pc = "post"
    /\ LET u == Unique(SortResults(results))
       IN  results' = IF Len(u) > opts.mr THEN SubSeq(u, 1, opts.mr) ELSE u
    /\ pc' = "done"
    /\ UNCHANGED <<scene, opts, limit, tested, queue, work, flags>>

Next ==
    \/ ChooseCells \/ ChooseEdge \/ ChooseBound \/ ChooseOptions
    \/ Start \/ DoEdge \/ DoCell \/ Brute \/ InitQueue1 \/ InitQueue2 \/ Pop \/ Post

(***************************************************************************)
(* The property (C08) on termination                                       *)
(***************************************************************************)
\* the exhaustive scan with exact distances
Truth ==
    LET cand == {[d |-> scene.d[e], s |-> 0, e |-> e] : e \in {x \in Edges : scene.d[x] < opts.limit}}
                \cup {[d |-> 0, s |-> s, e |-> -1] : s \in (IF opts.inc /\ 0 < opts.limit THEN scene.inside ELSE {})}
    IN  SetToSortSeq(cand, ResLess)

TrueDist(r) == IF r.e = -1 THEN 0 ELSE scene.d[r.e]

Done == pc = "done"

\* results are sorted, duplicate-free, respect the result limit and the distance limit
ResultsWellFormed ==
    Done =>
        /\ \A i \in 1..(Len(results)-1) : results[i].d <= results[i+1].d
        /\ \A i \in 1..Len(results), j \in 1..Len(results) :
              i # j => <<results[i].s, results[i].e>> # <<results[j].s, results[j].e>>
        /\ Len(results) <= opts.mr
        /\ \A i \in 1..Len(results) :
              /\ results[i].d < opts.limit
              /\ results[i].e = -1 => (opts.inc /\ results[i].s \in scene.inside)
              /\ TrueDist(results[i]) <= results[i].d

\* as many results as the exhaustive scan has (so: non-empty iff something is within the limit -
\* IsDistanceLess), each within the permitted error of the corresponding true optimum
ResultsComplete ==
    Done =>
        LET T == Truth
            k == IF Len(T) < opts.mr THEN Len(T) ELSE opts.mr
        IN  /\ Len(results) = k
            /\ \A i \in 1..Len(results) :
                  /\ i <= k => results[i].d <= T[i].d + opts.err
                  /\ i <= k => T[i].d <= results[i].d

\* without a permitted error (or when it cannot matter) the distances are those of the scan
ResultsExact ==
    Done /\ (opts.err = 0 \/ (~opts.tUses /\ opts.mr > 1)) =>
        LET T == Truth
        IN  /\ Len(results) <= Len(T)
            /\ \A i \in 1..Len(results) : results[i].d = T[i].d /\ results[i].d = TrueDist(results[i])
            \* with more than one result wanted even the identities are those of the scan
            /\ (opts.mr > 1 /\ Cardinality(scene.inside) <= opts.mr) =>
                  \A i \in 1..Len(results) : results[i] = T[i]

NoPanic == pc # "panic"

\* the scenes handed to the algorithm are exactly the admissible ones
SceneAdmissible ==
    pc \notin {"scene-cells", "scene-edges", "scene-bounds"} => Admissible(scene, scene.lb)

\* the covering used by the search is what initCovering is specified to produce
CoveringOK == pc = "scene-edges" => CoveringGood(scene.cells, Covering(scene.cells))

\* CONSTRAINT for structure-only runs: explore every admissible set of index cells (all
\* antichains of the tree up to MaxCells cells) and check CoveringOK, nothing else
CellsOnly == pc = "scene-cells"

TypeOK ==
    /\ pc \in {"scene-cells", "scene-edges", "scene-bounds", "options", "start", "brute",
               "initq1", "initq2", "loop", "post", "done", "panic"}
    /\ limit \in Int

=============================================================================
