------------------------------ MODULE Lexicon ------------------------------
(***************************************************************************)
(* EXT (C13, history independence of small stateful objects):              *)
(* s2/lexicon.go  sequenceLexicon and idSetLexicon as state machines.      *)
(*                                                                         *)
(* The documented meaning (doc comments of lexicon.go):                    *)
(*   sequenceLexicon  "automatically eliminates duplicate slices, and maps *)
(*     the remaining sequences to sequentially increasing integer IDs";    *)
(*     add "adds the given value to the lexicon if it is not already       *)
(*     present, and returns its ID.  IDs are assigned sequentially         *)
(*     starting from zero"; sequence "returns the original sequence of     *)
(*     values for the given ID"; size "the number of value sequences";     *)
(*     clear "clears all data".                                            *)
(*   idSetLexicon  "Each distinct ID set is mapped to a 32-bit integer.    *)
(*     Empty and singleton sets take up no additional space; the set       *)
(*     itself is represented by the unique ID assigned to the set";        *)
(*     add "return[s] the unique ID for this set.  The values are          *)
(*     automatically sorted and duplicates are removed"; "Singleton sets   *)
(*     are represented by their element"; "Non-singleton sets are          *)
(*     represented by the bitwise complement of the ID returned by the     *)
(*     sequenceLexicon"; emptySetID = MinInt32.                            *)
(*                                                                         *)
(* The abstract state is the partial map  idOf : sequence -> id  (not a    *)
(* list), so that density, injectivity, idempotence and the round trip are *)
(* theorems checked by TLC on every reachable state, not definitions.      *)
(* Every reply and the whole content after every step are printed with the *)
(* behaviour and compared with the real object by the harness.             *)
(*                                                                         *)
(* The argument universe is split in small adversarial families (one root  *)
(* state each): sequences that are prefixes of one another (with the empty *)
(* sequence), all sequences of one length with one element sum (they       *)
(* collide under any order-insensitive or additive hash), sequences with   *)
(* negative elements, and a seeded pick from the whole universe.           *)
(***************************************************************************)
EXTENDS Integers, Sequences, FiniteSets, SequencesExt, TLC, Json

CONSTANTS MaxLen,      \* bound on the number of calls in a behaviour
          Reads,       \* TRUE: sequence/size/idSet are explicit calls (else only projected by the harness)
          Fams,        \* names of the families explored in this run (the family determines the machine)
          PickIdx      \* families "pick" / "spick": indices into the sorted universes

EmptySetID == (-2147483647) - 1          \* math.MinInt32
Compl(x) == (-x) - 1                     \* bitwise complement ^x

RECURSIVE SeqsOver(_, _)
SeqsOver(E, n) == IF n = 0 THEN {<<>>} ELSE {Append(s, e) : s \in SeqsOver(E, n - 1), e \in E}
UpTo(E, n) == UNION {SeqsOver(E, k) : k \in 0..n}
RECURSIVE SumSeq(_)
SumSeq(s) == IF s = <<>> THEN 0 ELSE Head(s) + SumSeq(Tail(s))
RangeOf(s) == {s[i] : i \in DOMAIN s}
RECURSIVE SeqLess(_, _)
SeqLess(a, b) ==      \* shorter first, then lexicographic
    IF Len(a) # Len(b) THEN Len(a) < Len(b)
    ELSE IF a = <<>> THEN FALSE
    ELSE IF Head(a) # Head(b) THEN Head(a) < Head(b)
    ELSE SeqLess(Tail(a), Tail(b))
Desc(S) == SetToSortSeq(S, LAMBDA a, b : a > b)
Canon(S) == SetToSortSeq(S, LAMBDA a, b : a < b)     \* the sorted duplicate-free form of a set

\* ---- universes --------------------------------------------------------------
SeqUniverse == UpTo(-1..2, 3)                        \* 85 sequences
SetUniverse == UpTo(0..3, 3)                         \* 85 argument lists (unsorted, with duplicates)
USeqSeq == SetToSortSeq(SeqUniverse, SeqLess)
USeqSet == SetToSortSeq(SetUniverse, SeqLess)
SumClass(E, n, t) == {s \in SeqsOver(E, n) : SumSeq(s) = t}
\* 3-element subsets of 0..6 with a given sum, each given in descending order
SetSumClass(t) == {Desc(S) : S \in {T \in SUBSET (0..6) : Cardinality(T) = 3 /\ SumSeq(Canon(T)) = t}}

Family(f) ==
    CASE f = "prefix" -> {<<>>, <<0>>, <<0, 0>>, <<0, 0, 0>>, <<0, 1>>, <<1>>}
      [] f = "neg"    -> {<<-1>>, <<-1, -1>>, <<-1, 1>>, <<1, -1>>, <<0, 0>>, <<0>>}
      [] f = "sum1"   -> SumClass(0..2, 3, 1)
      [] f = "sum2"   -> SumClass(0..2, 3, 2)
      [] f = "sum3"   -> SumClass(0..2, 3, 3)
      [] f = "sum4"   -> SumClass(0..2, 3, 4)
      [] f = "sum5"   -> SumClass(0..2, 3, 5)
      [] f = "nsum"   -> SumClass(-1..2, 2, 1) \cup SumClass(-1..2, 2, 0)
      \* idset: the empty set, singletons (also with duplicates), unsorted and duplicated pairs
      [] f = "small"  -> {<<>>, <<2>>, <<2, 2>>, <<1, 2>>, <<2, 1>>, <<1, 2, 1>>, <<0>>}
      [] f = "ssum7"  -> SetSumClass(7)
      [] f = "ssum8"  -> SetSumClass(8)
      [] f = "ssum9"  -> SetSumClass(9)
      [] f = "ssum10" -> SetSumClass(10)
      [] f = "ssum11" -> SetSumClass(11)
      [] f = "pick"   -> {USeqSeq[i] : i \in PickIdx \cap (1..Len(USeqSeq))}
      [] f = "spick"  -> {USeqSet[i] : i \in PickIdx \cap (1..Len(USeqSet))}
SetFams == {"small", "ssum7", "ssum8", "ssum9", "ssum10", "ssum11", "spick"}     \* idSetLexicon families

\* ---- state ------------------------------------------------------------------
VARIABLES fam,      \* the family of this behaviour
          idOf,     \* sequence lexicon: the sequences present -> their id
          size,     \* number of sequences present
          issued,   \* idset: canonical set -> the id handed out since the last clear
          h         \* history of calls with replies and content
vars == <<fam, idOf, size, issued, h>>

U == Family(fam)
Kind == IF fam \in SetFams THEN "idset" ELSE "seq"
Bound == IF Cardinality(U) > 6 THEN MaxLen - 1 ELSE MaxLen
Present == DOMAIN idOf
SeqAt(id) == CHOOSE s \in Present : idOf[s] = id
\* the content in id order (what the harness projects from the real object)
Content(f, n) == IF n = 0 THEN <<>> ELSE [i \in 1..n |-> CHOOSE s \in DOMAIN f : f[s] = i - 1]
\* the documented compact layout: all values in id order and the begin offsets
RECURSIVE Concat(_)
Concat(ss) == IF ss = <<>> THEN <<>> ELSE Head(ss) \o Concat(Tail(ss))
RECURSIVE Begins(_, _)
Begins(ss, at) == IF ss = <<>> THEN <<at>> ELSE <<at>> \o Begins(Tail(ss), at + Len(Head(ss)))

AddReply(f, n, s) == IF s \in DOMAIN f THEN f[s] ELSE n
AddMap(f, n, s) == IF s \in DOMAIN f THEN f ELSE f @@ (s :> n)
AddSize(f, n, s) == IF s \in DOMAIN f THEN n ELSE n + 1

Init ==
    /\ fam \in Fams
    /\ idOf = <<>> /\ size = 0 /\ issued = <<>> /\ h = <<>>

\* ---- sequenceLexicon ----------------------------------------------------------
Add(s) ==
    /\ idOf' = AddMap(idOf, size, s) /\ size' = AddSize(idOf, size, s)
    /\ h' = Append(h, [a |-> "Add", x |-> s, r |-> AddReply(idOf, size, s),
                       st |-> Content(AddMap(idOf, size, s), AddSize(idOf, size, s))])
    /\ UNCHANGED <<fam, issued>>
Clear ==
    /\ idOf' = <<>> /\ size' = 0 /\ issued' = <<>>
    /\ h' = Append(h, [a |-> "Clear", x |-> <<>>, r |-> 0, st |-> <<>>])
    /\ UNCHANGED fam
Sequence(id) ==
    /\ h' = Append(h, [a |-> "Sequence", x |-> <<>>, k |-> id, rs |-> SeqAt(id), st |-> Content(idOf, size)])
    /\ UNCHANGED <<fam, idOf, size, issued>>
Size ==
    /\ h' = Append(h, [a |-> "Size", x |-> <<>>, r |-> size, st |-> Content(idOf, size)])
    /\ UNCHANGED <<fam, idOf, size, issued>>

\* ---- idSetLexicon -------------------------------------------------------------
\* the id of the set S (S given as any argument list with that range)
SetReply(f, n, S) ==
    IF S = {} THEN EmptySetID
    ELSE IF Cardinality(S) = 1 THEN CHOOSE e \in S : TRUE
    ELSE Compl(AddReply(f, n, Canon(S)))
IDSetOf(f, id) ==
    IF id >= 0 THEN <<id>>
    ELSE IF id = EmptySetID THEN <<>>
    ELSE CHOOSE s \in DOMAIN f : f[s] = Compl(id)
AddSet(x) ==
    LET S == RangeOf(x)
        big == Cardinality(S) >= 2
        f2 == IF big THEN AddMap(idOf, size, Canon(S)) ELSE idOf
        n2 == IF big THEN AddSize(idOf, size, Canon(S)) ELSE size
        r == SetReply(idOf, size, S)
    IN  /\ idOf' = f2 /\ size' = n2
        /\ issued' = IF Canon(S) \in DOMAIN issued THEN issued ELSE issued @@ (Canon(S) :> r)
        /\ h' = Append(h, [a |-> "AddSet", x |-> x, r |-> r, st |-> Content(f2, n2)])
        /\ UNCHANGED fam
IDSet(id) ==
    /\ h' = Append(h, [a |-> "IDSet", x |-> <<>>, k |-> id, rs |-> IDSetOf(idOf, id), st |-> Content(idOf, size)])
    /\ UNCHANGED <<fam, idOf, size, issued>>
\* ids that may be looked up: everything handed out since the last clear, and the
\* implicit ones (empty set, singletons) at any time
Askable == {issued[s] : s \in DOMAIN issued} \cup {EmptySetID, 0, 3}

Finish ==
    /\ Len(h) = Bound
    /\ PrintT(<<"HIST", ToJson([op |-> "lexicon." \o Kind, fam |-> fam, steps |-> h])>>)
    /\ UNCHANGED vars

Next ==
    \/ /\ Len(h) < Bound
       /\ \/ Kind = "seq" /\ \E s \in U : Add(s)
          \/ Kind = "idset" /\ \E x \in U : AddSet(x)
          \/ Clear
          \/ Kind = "seq" /\ Reads /\ (Size \/ \E id \in 0..(size - 1) : Sequence(id))
          \/ Kind = "idset" /\ Reads /\ \E id \in Askable : IDSet(id)
    \/ Finish

\* ---- theorems (INVARIANTs) ------------------------------------------------------
\* ids are dense: exactly 0..size-1
Dense == {idOf[s] : s \in Present} = 0..(size - 1) /\ Cardinality(Present) = size
\* distinct sequences have distinct ids
Injective == \A s \in Present, t \in Present : s # t => idOf[s] # idOf[t]
\* Add is idempotent and sequence(add(s)) = s; clear resets
LastCall ==
    Len(h) = 0 \/
    LET e == h[Len(h)]
    IN  CASE e.a = "Add" ->
               /\ AddReply(idOf, size, e.x) = e.r /\ AddMap(idOf, size, e.x) = idOf      \* adding again: same id, no change
               /\ SeqAt(e.r) = e.x
               /\ e.r \in 0..(size - 1)
          [] e.a = "Clear" -> size = 0 /\ Present = {} /\ \A s \in U : AddReply(idOf, size, s) = 0
          [] e.a = "AddSet" ->
               /\ SetReply(idOf, size, RangeOf(e.x)) = e.r                            \* stable
               /\ IDSetOf(idOf, e.r) = Canon(RangeOf(e.x))                              \* round trip: sorted, duplicate-free
               /\ (e.r >= 0) <=> (Cardinality(RangeOf(e.x)) = 1)
               /\ (e.r = EmptySetID) <=> (e.x = <<>>)
               /\ issued[Canon(RangeOf(e.x))] = e.r
          [] OTHER -> TRUE
\* the id of a set depends on the set only (not on order/duplicates of the argument list, nor
\* on the calls made before), and different sets have different ids
SetIdsFunctional ==
    Kind = "idset" =>
      /\ \A s \in DOMAIN issued, t \in DOMAIN issued : s # t => issued[s] # issued[t]
      /\ \A s \in DOMAIN issued : SetReply(idOf, size, RangeOf(s)) = issued[s]
      /\ \A s \in Present : Len(s) >= 2            \* empty and singleton sets take no space
\* the compact layout is a faithful representation of the content
Layout ==
    LET c == Content(idOf, size)  v == Concat(c)  b == Begins(c, 0)
    IN  /\ Len(b) = size + 1 /\ b[1] = 0 /\ b[size + 1] = Len(v)
        /\ \A id \in 0..(size - 1) : SubSeq(v, b[id + 1] + 1, b[id + 2]) = SeqAt(id)
=============================================================================
