----------------------------- MODULE Gen_WireMut -----------------------------
(***************************************************************************)
(* C15: structured mutants of valid model encodings of every type and      *)
(* format version, each run through the decoder state machine of Wire.tla  *)
(* (sticky error, allocation requests).  A behaviour is                    *)
(*   choose base -> choose mutation(s) -> decoder steps -> Finish (prints) *)
(* Exhaustive mode enumerates every single mutation of every base; in      *)
(* -simulate mode (Double = TRUE) random pairs of mutations are drawn.     *)
(***************************************************************************)
EXTENDS Wire, Json, SequencesExt

CONSTANT Types      \* subset of {"Point","Cap","Rect","CellID","Cell","CellUnion","Polyline","Loop","PolygonL","PolygonC"}
CONSTANT VA         \* vertex codes
CONSTANT PolySpecs  \* nl + 10*len1 + 1000*len2 + 100000*len3 + 10000000*a
CONSTANT LoopLens   \* lengths of the lone (lossless) loops
CONSTANT LineLens   \* polyline lengths
CONSTANT UnionLens  \* cell union lengths
CONSTANT ManySpecs  \* lossless polygons of more than 12 loops: n*100 + z = n loops of 3 vertices, loop z has none
CONSTANT Double     \* allow a second mutation behind the first

VASeq == SetToSortSeq(VA, <)

\* flags depend on the loop's position only, so that the structure of the bases (and with it the
\* set of failure keys) does not depend on the seed-chosen vertex values
LoopOf(cs, j) == MkLoop([i \in 1..Len(cs) |-> VOf(cs[i])], j % 2 = 0, (j - 1) % 3)
GenLoop(n, a, j) == LoopOf([i \in 1..n |-> VASeq[(((a + j) * i + j * i * i) % Len(VASeq)) + 1]], j)
SpecLoops(P) ==
    LET nl == P % 10  a == P \div 10000000
    IN  [j \in 1..nl |-> GenLoop((P \div (10 * 100 ^ (j - 1))) % 100, a, j)]

\* a polygon with more than 12 loops keeps a cumulative edge table; a zero-vertex loop (which the
\* lossless decoder accepts) in the middle gives that table two equal consecutive entries
ManyLoops(sp) == LET n == sp \div 100  z == sp % 100
                 IN  [j \in 1..n |-> IF j = z THEN MkLoop(<<>>, FALSE, 0) ELSE GenLoop(3, n, j)]
ManyList == SetToSortSeq(ManySpecs, <)

\* the special loops: one vertex, (0,0,1) = centre of face 2 for the empty loop, (0,0,-1) = centre of
\* face 5 with the origin inside for the full loop.  The library writes polygons made of them in the
\* compressed format only; their version-1 encodings are valid all the same.
EmptyLoopV == MkLoop(<<Vtx(2, M \div 2, M \div 2, TRUE)>>, FALSE, 0)
FullLoopV == MkLoop(<<Vtx(5, M \div 2, M \div 2, TRUE)>>, TRUE, 0)
SpecialPolys == <<<<FullLoopV>>, <<EmptyLoopV>>, <<>>>>

CellA == [f |-> 3, p |-> <<>>]
CellB == [f |-> 0, p |-> <<2, 1>>]
CellC == [f |-> 5, p |-> [i \in 1..30 |-> (i * 3 + i \div 4) % 4]]
CellD == [f |-> 1, p |-> [i \in 1..12 |-> (i + 1) % 4]]
CellSeq == <<CellA, CellB, CellC, CellD, CellB>>

Base(t, fmt, loops, cells, n, fs) == [t |-> t, fmt |-> fmt, loops |-> loops, cells |-> cells, n |-> n, fs |-> fs]
If(c, s) == IF c THEN s ELSE <<>>
PolyList == SetToSortSeq(PolySpecs, <)

BaseSeq ==
       If("Point" \in Types, <<Base("Point", "v1", <<>>, <<>>, 0, EncPoint)>>)
    \o If("Cap" \in Types, <<Base("Cap", "v0", <<>>, <<>>, 0, EncCap)>>)
    \o If("Rect" \in Types, <<Base("Rect", "v1", <<>>, <<>>, 0, EncRect)>>)
    \o If("CellID" \in Types, [i \in 1..3 |-> Base("CellID", "v0", <<>>, <<CellSeq[i]>>, 0, EncCellID(CellSeq[i]))])
    \o If("Cell" \in Types, [i \in 1..3 |-> Base("Cell", "v0", <<>>, <<CellSeq[i]>>, 0, EncCellID(CellSeq[i]))])
    \o If("CellUnion" \in Types,
          LET ls == SetToSortSeq(UnionLens, <)
          IN  [i \in 1..Len(ls) |-> Base("CellUnion", "v1", <<>>, SubSeq(CellSeq, 1, ls[i]), 0, EncCellUnion(SubSeq(CellSeq, 1, ls[i])))])
    \o If("Polyline" \in Types,
          LET ls == SetToSortSeq(LineLens, <)
          IN  [i \in 1..Len(ls) |-> Base("Polyline", "v1", <<>>, <<>>, ls[i], EncPolyline(ls[i]))])
    \o If("Loop" \in Types,
          LET ls == SetToSortSeq(LoopLens, <)
          IN  [i \in 1..Len(ls) |-> LET lp == GenLoop(ls[i], i, i) IN Base("Loop", "v1", <<lp>>, <<>>, 0, EncLoop(lp, 0))])
    \o If("PolygonL" \in Types,
          [i \in 1..Len(PolyList) |-> LET ls == SpecLoops(PolyList[i])
                                      IN  Base("Polygon", "lossless", ls, <<>>, 0, EncPolygonLossless(ls))])
    \o If("Loop" \in Types, <<Base("Loop", "v1", <<FullLoopV>>, <<>>, 0, EncLoop(FullLoopV, 0)),
                               Base("Loop", "v1", <<EmptyLoopV>>, <<>>, 0, EncLoop(EmptyLoopV, 0))>>)
    \o If("PolygonL" \in Types,
          [i \in 1..3 |-> Base("Polygon", "lossless", SpecialPolys[i], <<>>, 0, EncPolygonLossless(SpecialPolys[i]))])
    \o If("PolygonC" \in Types,
          [i \in 1..2 |-> Base("Polygon", "compressed", SpecialPolys[i], <<>>, 0, EncPolygonCompressed(SpecialPolys[i], 0, W))])
    \o If("PolygonL" \in Types,
          [i \in 1..Len(ManyList) |-> LET ls == ManyLoops(ManyList[i])
                                      IN  Base("Polygon", "lossless", ls, <<>>, 0, EncPolygonLossless(ls))])
    \o If("PolygonC" \in Types,
          [i \in 1..Len(PolyList) |-> LET ls == SpecLoops(PolyList[i])
                                          L == IF Len(AllVerts(ls)) = 0 THEN RealMaxLevel ELSE SnapLevel(AllVerts(ls))
                                      IN  Base("Polygon", "compressed", ls, <<>>, L, EncPolygonCompressed(ls, L, W))])

\* long float payloads are mutated at every 11th field only; of a very long field sequence only
\* the head and every 5th other field
Mutable(fs, i) == /\ fs[i].k # "f64" \/ Len(fs) <= 60 \/ i % 11 = 0
                  /\ Len(fs) <= 150 \/ i <= 12 \/ i % 5 = 0
Muts(fs) == {m \in SingleMuts(fs) : m.at = 0 \/ Mutable(fs, m.at)}

VARIABLE st
Fs == BaseSeq[st.b].fs

Init == st \in {[stage |-> "base", b |-> i, ms |-> <<>>, d |-> DecInit] : i \in 1..Len(BaseSeq)}

Choose1 == /\ st.stage = "base"
           /\ \E m \in Muts(Fs) : st' = [st EXCEPT !.stage = IF Double /\ m.at > 0 THEN "second" ELSE "run", !.ms = <<m>>]
Choose2 == /\ st.stage = "second"
           /\ \/ st' = [st EXCEPT !.stage = "run"]
              \/ \E m \in Muts(Fs) : m.at > st.ms[1].at /\ st' = [st EXCEPT !.stage = "run", !.ms = Append(st.ms, m)]
Run == /\ st.stage = "run" /\ ~DecDone(st.d)
       /\ st' = [st EXCEPT !.d = DecStep(Fs, st.ms, st.d)]

VJson(v) == <<v.f, v.si, v.ti, IF v.ex THEN 1 ELSE 0, VLevel(v)>>
LJson(lp) == [vs |-> [i \in 1..Len(lp.vs) |-> VJson(lp.vs[i])], oi |-> lp.oi, d |-> lp.d]
FJson(fs) == [i \in 1..Len(fs) |-> [r |-> fs[i].r, k |-> fs[i].k, b |-> fs[i].b, ref |-> fs[i].ref, lim |-> fs[i].lim]]

\* the bases are printed once each (tag BASE); a case refers to its base by index
EmitBase ==
    IF st.stage = "base"
    THEN LET bs == BaseSeq[st.b]
         IN  PrintT(<<"BASE", ToJson([b |-> st.b, t |-> bs.t, fmt |-> bs.fmt, K |-> K,
                        loops |-> [i \in 1..Len(bs.loops) |-> LJson(bs.loops[i])],
                        cells |-> bs.cells, n |-> bs.n, fields |-> FJson(bs.fs)])>>)
    ELSE TRUE

Finish == /\ st.stage = "run" /\ DecDone(st.d)
          /\ PrintT(<<"CASE", ToJson([op |-> "decode", b |-> st.b, muts |-> st.ms, want |-> Want(st.d),
                            model |-> [status |-> st.d.status, why |-> st.d.why, n |-> st.d.n,
                                       allocs |-> st.d.allocs, fmut |-> st.d.fmut]])>>)
          /\ st' = [st EXCEPT !.stage = "end"]

Next == Choose1 \/ Choose2 \/ Run \/ Finish

\* ---- properties of the decoder machine --------------------------------------
Sticky == StickyError(st.d)
AllocAdmissible == NoAllocOverLimit(Fs, st.d)
\* the unmutated input is accepted and consumed completely; a cut is always an error
Accepts == st.stage = "end" /\ st.ms = <<NoMut>> => st.d.status = "OK" /\ st.d.n = Len(Fs)
CutErrors == st.stage = "end" /\ Len(st.ms) >= 1 /\ st.ms[1].m = "cut" => st.d.status = "ERR" /\ st.d.n = st.ms[1].at - 1
\* an over-limit count in front of every other mutation is a forced error with no request for it
OverLimitRejected ==
    st.stage = "end" /\ Len(st.ms) >= 1 /\ st.ms[1].m = "tok" /\ TokOverLimit(Fs[st.ms[1].at], st.ms[1].tok)
        => Want(st.d) = "MUST_ERROR" /\ Len(st.d.allocs) = Cardinality({j \in 1..(st.ms[1].at - 1) : Fs[j].lim >= 0})
=============================================================================
