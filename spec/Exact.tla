------------------------------- MODULE Exact -------------------------------
(***************************************************************************)
(* W1: the integer lattice sphere.  Points are non-zero integer vectors    *)
(* <<x,y,z>> in (-N..N)^3.  Everything S2 promises about orientation,      *)
(* crossing and distance *comparison* is an exact integer expression here. *)
(* All intermediates stay below 2^31 for N <= 4 (see DESIGN.md 3.1).       *)
(***************************************************************************)
EXTENDS Integers, Sequences, FiniteSets, FiniteSetsExt, SequencesExt, TLC

CONSTANT N
ASSUME N \in 1..4

Coord == -N..N
Pts == {<<x, y, z>> : x \in Coord, y \in Coord, z \in Coord} \ {<<0, 0, 0>>}

Dot(a, b) == a[1]*b[1] + a[2]*b[2] + a[3]*b[3]
Cross(a, b) == << a[2]*b[3] - a[3]*b[2], a[3]*b[1] - a[1]*b[3], a[1]*b[2] - a[2]*b[1] >>
Det(a, b, c) == Dot(Cross(a, b), c)
Neg(a) == << -a[1], -a[2], -a[3] >>
Norm2(a) == Dot(a, a)
Sgn(x) == IF x > 0 THEN 1 ELSE IF x < 0 THEN -1 ELSE 0
Abs(x) == IF x < 0 THEN -x ELSE x
LexLess(a, b) == a[1] < b[1] \/ (a[1] = b[1] /\ (a[2] < b[2] \/ (a[2] = b[2] /\ a[3] < b[3])))
IsZero(a) == a = <<0, 0, 0>>
Parallel(a, b) == IsZero(Cross(a, b))
Antipodal(a, b) == Parallel(a, b) /\ Dot(a, b) < 0
SameDir(a, b) == Parallel(a, b) /\ Dot(a, b) > 0

(***************************************************************************)
(* Simulation of Simplicity, defined semantically.  Rows sorted            *)
(* lexicographically (a < b < c); entry (r,c) is perturbed by              *)
(* eps^(2^k), k = 3(r-1)+(3-c), i.e. da.Z > da.Y > da.X > db.Z > ...        *)
(* det(M+E) expands over the 34 partial permutation matrices S: the term   *)
(* of S is sign(S) * prod E[S] * minor(M; rows/cols not in S).  The sign   *)
(* of the perturbed determinant is the sign of the first non-zero          *)
(* coefficient in order of increasing total exponent.                      *)
(***************************************************************************)
Positions == {<<r, c>> : r \in 1..3, c \in 1..3}
PartialPerms == {S \in SUBSET Positions :
                    \A p \in S, q \in S : p # q => (p[1] # q[1] /\ p[2] # q[2])}
Pow2Seq == <<1, 2, 4, 8, 16, 32, 64, 128, 256>>
Pow2(k) == Pow2Seq[k + 1]
Weight(S) == SumSet({Pow2(3*(p[1]-1) + (3 - p[2])) : p \in S})
Inversions(S) == Cardinality({pq \in S \X S : pq[1][1] < pq[2][1] /\ pq[1][2] > pq[2][2]})
RowsOf(S) == {p[1] : p \in S}
ColsOf(S) == {p[2] : p \in S}
TermSignOf(S) ==
    LET k == SumSet(RowsOf(S)) + SumSet(ColsOf(S)) + Inversions(S)
    IN  IF k % 2 = 0 THEN 1 ELSE -1
SoSTerms == SetToSortSeq(PartialPerms, LAMBDA S, T : Weight(S) < Weight(T))
ASSUME Len(SoSTerms) = 34

\* Precomputed once (constant level): sign, remaining rows and columns of each term.
SoSTermRecs ==
    [i \in 1..34 |->
        LET S == SoSTerms[i]
        IN  [sg |-> TermSignOf(S),
             R |-> SetToSortSeq((1..3) \ RowsOf(S), <),
             C |-> SetToSortSeq((1..3) \ ColsOf(S), <)]]

MinorRC(M, R, C) ==
    IF Len(R) = 3 THEN Det(M[1], M[2], M[3])
    ELSE IF Len(R) = 2 THEN M[R[1]][C[1]] * M[R[2]][C[2]] - M[R[1]][C[2]] * M[R[2]][C[1]]
    ELSE IF Len(R) = 1 THEN M[R[1]][C[1]]
    ELSE 1

RECURSIVE SoSFrom(_, _)
SoSFrom(M, i) ==
    LET t == SoSTermRecs[i]
        v == t.sg * MinorRC(M, t.R, t.C)
    IN  IF v # 0 THEN Sgn(v) ELSE SoSFrom(M, i + 1)

\* a, b, c pairwise distinct and lexicographically increasing
SoSSignSorted(a, b, c) == SoSFrom(<<a, b, c>>, 1)

(***************************************************************************)
(* Transcription of the 13 tests of symbolicallyPerturbedSign              *)
(* (s2/predicates.go), for sorted a < b < c with Det(a,b,c) = 0.           *)
(***************************************************************************)
TableSign(a, b, c) ==
    LET bc == Cross(b, c)
        t == << bc[3], bc[2], bc[1],
                c[1]*a[2] - c[2]*a[1], c[1], -c[2],
                c[3]*a[1] - c[1]*a[3], c[3],
                a[1]*b[2] - a[2]*b[1], -b[1], b[2], a[1] >>
        nz == {i \in 1..12 : t[i] # 0}
    IN  IF nz = {} THEN 1 ELSE Sgn(t[Min(nz)])

(***************************************************************************)
(* RobustSign: exact determinant sign, SoS when it vanishes, 0 iff two     *)
(* arguments are equal.                                                    *)
(***************************************************************************)
SortSign3(a, b, c) ==
    \* returns <<perm sign, x, y, z>> with x < y < z
    LET s1 == IF LexLess(b, a) THEN <<-1, b, a, c>> ELSE <<1, a, b, c>>
        s2 == IF LexLess(s1[4], s1[3]) THEN << -s1[1], s1[2], s1[4], s1[3]>> ELSE s1
        s3 == IF LexLess(s2[3], s2[2]) THEN << -s2[1], s2[3], s2[2], s2[4]>> ELSE s2
    IN  s3

\* The oracle used everywhere.  It evaluates the perturbation through TableSign,
\* which Gen_Sign proves equal to the semantic SoSSignSorted on every degenerate
\* sorted triple (exhaustively for N=1, on the sampled sub-lattices for N>1);
\* RobustSignSemantic is the definition, kept for that theorem.
RobustSign(a, b, c) ==
    IF a = b \/ b = c \/ a = c THEN 0
    ELSE LET d == Det(a, b, c)
         IN  IF d # 0 THEN Sgn(d)
             ELSE LET s == SortSign3(a, b, c)
                  IN  s[1] * TableSign(s[2], s[3], s[4])

RobustSignSemantic(a, b, c) ==
    IF a = b \/ b = c \/ a = c THEN 0
    ELSE LET d == Det(a, b, c)
         IN  IF d # 0 THEN Sgn(d)
             ELSE LET s == SortSign3(a, b, c)
                  IN  s[1] * SoSSignSorted(s[2], s[3], s[4])

OrderedCCW(a, b, c, o) ==
    LET s == (IF RobustSign(b, o, a) # -1 THEN 1 ELSE 0)
           + (IF RobustSign(c, o, b) # -1 THEN 1 ELSE 0)
           + (IF RobustSign(a, o, c) = 1 THEN 1 ELSE 0)
    IN  s >= 2

(***************************************************************************)
(* Reference direction.  Ortho(a) is parallel (positively) to a x t with   *)
(* t = (0.012, 0.0053, 0.00457) and one component replaced by 1; scaled    *)
(* by 1e5 this is an integer vector.  LargestComponent as in r3.           *)
(***************************************************************************)
LargestAxis(a) ==
    LET x == Abs(a[1]) y == Abs(a[2]) z == Abs(a[3])
    IN  IF x > y THEN (IF x > z THEN 1 ELSE 3) ELSE (IF y > z THEN 2 ELSE 3)
RefT(a) ==
    CASE LargestAxis(a) = 1 -> <<1200, 530, 100000>>
      [] LargestAxis(a) = 2 -> <<100000, 530, 457>>
      [] OTHER -> <<1200, 100000, 457>>
RefDir(a) == Cross(a, RefT(a))

\* Sign involving the reference direction r of o: exact when the integer
\* determinant is non-zero, otherwise unknown (2): the real reference
\* direction is a rounded float and no prediction is made.
SignU(a, b, c) ==
    IF a = b \/ b = c \/ a = c THEN 0
    ELSE LET d == Det(a, b, c) IN IF d # 0 THEN Sgn(d) ELSE 2

\* OrderedCCW(r, b, c, o) where r = RefDir(o) is not a lattice point.
\* Result: "T", "F" or "U" (not predicted).
OrderedCCWRef(b, c, o) ==
    LET r == RefDir(o)
        s1 == SignU(b, o, r)
        s3 == SignU(r, o, c)
        s2 == RobustSign(c, o, b)
        F(u1, u3) == ((IF u1 # -1 THEN 1 ELSE 0) + (IF s2 # -1 THEN 1 ELSE 0)
                      + (IF u3 = 1 THEN 1 ELSE 0)) >= 2
        c1 == IF s1 = 2 THEN {1, -1} ELSE {s1}
        c3 == IF s3 = 2 THEN {1, -1} ELSE {s3}
        res == {F(u1, u3) : u1 \in c1, u3 \in c3}
    IN  IF res = {TRUE} THEN "T" ELSE IF res = {FALSE} THEN "F" ELSE "U"

NotU(x) == IF x = "T" THEN "F" ELSE IF x = "F" THEN "T" ELSE "U"

\* VertexCrossing, transcribed from s2/edge_crossings.go
VertexCrossing(a, b, c, d) ==
    IF a = b \/ c = d THEN "F"
    ELSE IF a = c THEN (IF b = d THEN "T" ELSE OrderedCCWRef(d, b, a))
    ELSE IF b = d THEN OrderedCCWRef(c, a, b)
    ELSE IF a = d THEN (IF b = c THEN "T" ELSE OrderedCCWRef(c, b, a))
    ELSE IF b = c THEN OrderedCCWRef(d, a, b)
    ELSE "F"

\* the lattice determinant inside the vertex-crossing rule is non-zero: the answer is
\* robust under normalisation of the points
VertexCrossingRobust(a, b, c, d) ==
    IF a = b \/ c = d THEN TRUE
    ELSE IF a = c THEN (b = d \/ Det(b, a, d) # 0)
    ELSE IF b = d THEN Det(a, b, c) # 0
    ELSE IF a = d THEN (b = c \/ Det(b, a, c) # 0)
    ELSE IF b = c THEN Det(a, b, d) # 0
    ELSE TRUE

\* S2 edges: endpoints equal (degenerate edge) or not parallel (in particular not antipodal)
ValidEdge(a, b) == a = b \/ ~Parallel(a, b)

AngleContainsVertex(a, b, c) == NotU(OrderedCCWRef(c, a, b))

(***************************************************************************)
(* Crossing: the four-orientation criterion with the perturbation.         *)
(* "CROSS" / "MAYBE" / "NO" as documented for s2.CrossingSign.             *)
(***************************************************************************)
CrossingSign(a, b, c, d) ==
    IF a = c \/ a = d \/ b = c \/ b = d THEN "MAYBE"
    ELSE IF a = b \/ c = d THEN "NO"
    ELSE LET acb == -RobustSign(a, b, c)
             bda == RobustSign(a, b, d)
         IN  IF bda # acb THEN "NO"
             ELSE IF -RobustSign(c, d, b) # acb THEN "NO"
             ELSE IF RobustSign(c, d, a) # acb THEN "NO"
             ELSE "CROSS"

\* robust on the normalised embedding: every determinant that decides is non-zero
CrossingRobust(a, b, c, d) ==
    \/ a = c \/ a = d \/ b = c \/ b = d \/ a = b \/ c = d
    \/ /\ Det(a, b, c) # 0 /\ Det(a, b, d) # 0 /\ Det(c, d, a) # 0 /\ Det(c, d, b) # 0

EdgeOrVertexCrossing(a, b, c, d) ==
    LET s == CrossingSign(a, b, c, d)
    IN  IF s = "NO" THEN "F" ELSE IF s = "CROSS" THEN "T" ELSE VertexCrossing(a, b, c, d)

(***************************************************************************)
(* Exact distance comparison on the sphere (points as if projected).       *)
(* cos(x,a) = x.a / (|x||a|).  CmpCos(x,a,b) = sign(cos(x,a) - cos(x,b)).  *)
(* Closer = larger cosine.  |x| cancels.  Magnitudes: (x.a)^2 |b|^2 <=     *)
(* (3N^2)^2 * 3N^2 = 27 N^6 < 2^31 for N <= 4.                             *)
(***************************************************************************)
CmpCos(x, a, b) ==
    LET p == Dot(x, a) q == Dot(x, b)
        na == Norm2(a) nb == Norm2(b)
        \* compare p/sqrt(na) with q/sqrt(nb)
        sp == Sgn(p) sq == Sgn(q)
    IN  IF sp # sq THEN Sgn(sp - sq)
        ELSE IF sp = 0 THEN 0
        ELSE sp * Sgn(p*p*nb - q*q*na)

\* CompareDistances(x,a,b): -1 if ax < bx, +1 if ax > bx, 0 on exact tie
CmpDist(x, a, b) == -CmpCos(x, a, b)

=============================================================================
