------------------------------ MODULE IndexIter ------------------------------
(***************************************************************************)
(* EXT (C06, C13): the cell iterator of a ShapeIndex, s2/shapeindex.go     *)
(* ShapeIndexIterator: Begin / End / Next / Prev / LocatePoint /           *)
(* LocateCellID / Done / CellID, as a state machine in the discrete cell   *)
(* world of CellUnions.tla (cells <<face, path>> below NF roots, L levels, *)
(* a cell = the interval of its level-L leaves).                           *)
(*                                                                         *)
(* State: the index cells (an antichain of cells, kept in the order of     *)
(* their ids), the position pos \in 1..N+1 (N+1 = "done") and whether the  *)
(* position is defined at all - the documentation leaves it undefined      *)
(* after a LocatePoint that answers false and a LocateCellID that answers  *)
(* Disjoint, and a freshly made iterator without a start position has      *)
(* none.  Position-dependent operations (Next, Prev, reading CellID/Done)  *)
(* are enabled only while the position is defined.                         *)
(*                                                                         *)
(* Two levels are written down and TLC checks that they agree:             *)
(*  - the documented meaning (Spec...): LocatePoint = "the cell that       *)
(*    contains the point"; LocateCellID = Indexed at the index cell that   *)
(*    contains the target, else Subdivided at the FIRST index cell inside  *)
(*    the target, else Disjoint;                                           *)
(*  - the algorithm of the code (Algo...): a lower-bound seek on the id    *)
(*    order followed by range-min / range-max comparisons with the found   *)
(*    cell and its predecessor (ids are 2*firstLeaf + size, range ends are *)
(*    2*firstLeaf + 1 and 2*lastLeaf + 1, as for real cell ids).           *)
(* Invariant AlgoMeetsSpec states their equality for every target in every *)
(* reachable state; the replay binds the real iterator to the documented   *)
(* meaning.                                                                *)
(*                                                                         *)
(* Mode "trans": the state graph is finite (no history variable); every    *)
(* transition is emitted once as a test (MongoDB style: one implementation *)
(* test per transition of the model); the harness reaches the pre-state    *)
(* by every route it knows (Begin+Next^k, End+Prev^k, a Locate call).      *)
(* Mode "walk": behaviours of MaxOps operations with a history variable,   *)
(* for -simulate; printed by the Finish action.                            *)
(***************************************************************************)
EXTENDS CellUnions, Json

CONSTANTS Mode, Pool, MaxCells, MaxOps

VARIABLES cells, pos, def, h, fin
vars == <<cells, pos, def, h, fin>>

\* ---------------------------------------------------------------- the index
DisjointI(i, j) == LeavesI[i] \cap LeavesI[j] = {}
Antichains == {X \in SUBSET Pool : Cardinality(X) <= MaxCells /\ \A i, j \in X : i # j => DisjointI(i, j)}
ById(X) == SetToSortSeq(X, LAMBDA a, b : KeyI[a] < KeyI[b])
N == Len(cells)
Done == pos = N + 1

\* ---------------------------------------------------------------- documented meaning
ContainingPos(cs, S) == {n \in 1..Len(cs) : S \subseteq LeavesI[cs[n]]}
InsidePos(cs, S) == {n \in 1..Len(cs) : LeavesI[cs[n]] \subseteq S}
MinOf(S) == CHOOSE a \in S : \A b \in S : a <= b

\* <<answer, position>>; position 0 = undefined
SpecLocatePoint(cs, y) ==
    IF ContainingPos(cs, {y}) # {} THEN <<"true", MinOf(ContainingPos(cs, {y}))>> ELSE <<"false", 0>>
SpecLocateCell(cs, x) ==
    IF ContainingPos(cs, LeavesI[x]) # {} THEN <<"Indexed", MinOf(ContainingPos(cs, LeavesI[x]))>>
    ELSE IF InsidePos(cs, LeavesI[x]) # {} THEN <<"Subdivided", MinOf(InsidePos(cs, LeavesI[x]))>>
    ELSE <<"Disjoint", 0>>

\* ---------------------------------------------------------------- the algorithm of the code
RMin(i) == 2 * LoI[i] + 1
RMax(i) == 2 * HiI[i] - 1
LeafKey(y) == 2 * y + 1
SeekPos(cs, k) ==
    IF \E n \in 1..Len(cs) : KeyI[cs[n]] >= k THEN MinOf({n \in 1..Len(cs) : KeyI[cs[n]] >= k}) ELSE Len(cs) + 1
AlgoLocatePoint(cs, y) ==
    LET p == SeekPos(cs, LeafKey(y)) IN
    IF p <= Len(cs) /\ RMin(cs[p]) <= LeafKey(y) THEN <<"true", p>>
    ELSE IF p > 1 /\ RMax(cs[p - 1]) >= LeafKey(y) THEN <<"true", p - 1>>
    ELSE <<"false", 0>>
AlgoLocateCell(cs, x) ==
    LET p == SeekPos(cs, RMin(x)) IN
    IF p <= Len(cs) /\ KeyI[cs[p]] >= KeyI[x] /\ RMin(cs[p]) <= KeyI[x] THEN <<"Indexed", p>>
    ELSE IF p <= Len(cs) /\ KeyI[cs[p]] <= RMax(x) THEN <<"Subdivided", p>>
    ELSE IF p > 1 /\ RMax(cs[p - 1]) >= KeyI[x] THEN <<"Indexed", p - 1>>
    ELSE <<"Disjoint", 0>>

AlgoMeetsSpec ==
    /\ \A y \in AllLeaves : AlgoLocatePoint(cells, y) = SpecLocatePoint(cells, y)
    /\ \A x \in CellIds : AlgoLocateCell(cells, x) = SpecLocateCell(cells, x)

\* ---------------------------------------------------------------- structure laws
\* a cell is contained in at most one index cell; Indexed and Subdivided exclude each other unless equal;
\* the position answered lies in 1..N; a located point's leaf cell is Indexed at the same position
LocateLaws ==
    /\ \A y \in AllLeaves : Cardinality(ContainingPos(cells, {y})) <= 1
    /\ \A x \in CellIds : \A r \in {SpecLocateCell(cells, x)} :
          /\ r[1] # "Disjoint" => r[2] \in 1..N
          /\ r[1] = "Indexed" => \A y \in LeavesI[x] : SpecLocatePoint(cells, y) = <<"true", r[2]>>
          /\ r[1] = "Subdivided" => \A y \in LeavesI[cells[r[2]]] : SpecLocatePoint(cells, y) = <<"true", r[2]>>
          /\ r[1] = "Disjoint" => \A y \in LeavesI[x] : SpecLocatePoint(cells, y)[1] = "false"
          /\ LevelI[x] = L => r[1] # "Subdivided" \/ cells[r[2]] = x
TypeOK ==
    /\ pos \in 0..(N + 1)
    /\ def \in BOOLEAN
    /\ def => pos \in 1..(N + 1)
    /\ \A n \in 2..N : KeyI[cells[n - 1]] < KeyI[cells[n]] /\ HiI[cells[n - 1]] <= LoI[cells[n]]

\* ---------------------------------------------------------------- actions
Obs(p, d) == [def |-> d, done |-> d /\ p = N + 1, cur |-> IF d /\ p \in 1..N THEN cells[p] ELSE NC]
Step(op, arg, res, p2, d2) ==
    /\ pos' = p2 /\ def' = d2 /\ UNCHANGED <<cells, fin>>
    /\ IF Mode = "trans"
       THEN /\ h' = h
            /\ PrintT(<<"CASE", ToJson([op |-> "ext.ixiter", kind |-> "trans", L |-> L, NF |-> NF, cells |-> cells,
                                        pre |-> [pos |-> pos, def |-> def],
                                        steps |-> <<[op |-> op, arg |-> arg, res |-> res, post |-> Obs(p2, d2), pos |-> p2]>>])>>)
       ELSE /\ Len(h) < MaxOps
            /\ h' = Append(h, [op |-> op, arg |-> arg, res |-> res, post |-> Obs(p2, d2), pos |-> p2])

Begin == Step("Begin", 0, "", 1, TRUE)
End == Step("End", 0, "", N + 1, TRUE)
Next == def /\ ~Done /\ Step("Next", 0, "", pos + 1, TRUE)
Prev == def /\ IF pos = 1 THEN Step("Prev", 0, "false", pos, TRUE) ELSE Step("Prev", 0, "true", pos - 1, TRUE)
LocatePoint == \E y \in AllLeaves : \A r \in {SpecLocatePoint(cells, y)} :
                   Step("LocatePoint", y, r[1], r[2], r[1] = "true")
LocateCell == \E x \in CellIds : \A r \in {SpecLocateCell(cells, x)} :
                   Step("LocateCellID", x, r[1], r[2], r[1] # "Disjoint")
Finish == /\ Mode = "walk" /\ Len(h) = MaxOps /\ ~fin
          /\ fin' = TRUE /\ UNCHANGED <<cells, pos, def, h>>
          /\ PrintT(<<"CASE", ToJson([op |-> "ext.ixiter", kind |-> "walk", L |-> L, NF |-> NF, cells |-> cells,
                                      pre |-> [pos |-> 0, def |-> FALSE], steps |-> h])>>)

Init == /\ cells \in {ById(X) : X \in Antichains}
        /\ pos = 0 /\ def = FALSE /\ h = <<>> /\ fin = FALSE
NextStep == Begin \/ End \/ Next \/ Prev \/ LocatePoint \/ LocateCell \/ Finish
Spec == Init /\ [][NextStep]_vars

\* the position never leaves the index and moves by the documented amount
PosMoves == [][def /\ def' => (pos' \in 1..(N + 1))]_vars
=============================================================================
