----------------------------- MODULE Gen_Cells ------------------------------
(***************************************************************************)
(* C01: generator for the cell hierarchy.  A state is one model cell: an   *)
(* anchor cell (root of the model tree) and a path below it.  The anchor   *)
(* of the top embedding is a face cell; deep embeddings root the same      *)
(* tree at a cell of level 30-L (or a middle level).  Everything is        *)
(* evaluated by the spec on the full path  anchor . path.                  *)
(*                                                                         *)
(* Walk = "tree"   : all paths of length 0..L below every anchor (BFS,     *)
(*                   level by level so that the workers share the work)    *)
(*        "corner" : all descendants of the anchors that touch a cube      *)
(*                   corner, down to MaxDepth (BFS; 4 chains per face)     *)
(*        "edge"   : descendants touching a face boundary (use -simulate)  *)
(*        "sim"    : all descendants (use -simulate)                       *)
(*        "chain"  : the anchors are targets <<face, level, i, j>>; from   *)
(*                   the face cell down to the target all four children    *)
(*                   of every cell on the way, then the target's children  *)
(*                   (BFS; deterministic replacement of the simulations)   *)
(*        "points" : the 26 exact directions (CellIDFromPoint)             *)
(* Every state is checked against the model theorems below and printed as  *)
(* a replay case with the answers the specification gives.                 *)
(***************************************************************************)
EXTENDS Cells, Json

CONSTANT Anchors    \* set of anchors, each a set {face, 100+level, 2^30+i, 2^30+2^29+j}
CONSTANT L          \* depth of the model tree (Walk = "tree")
CONSTANT Walk
CONSTANT MaxDepth   \* deepest full level reached by the descending walks
CONSTANT PD         \* depth of the partner tree (pair relations)
CONSTANT NbrUp      \* AllNeighbors is evaluated at levels n..n+NbrUp

B30 == Pow2(30)
B29 == Pow2(29)
AF(s) == CHOOSE x \in s : x \in 0..5
ALev(s) == (CHOOSE x \in s : x \in 100..130) - 100
AI(s) == (CHOOSE x \in s : x >= B30 /\ x < B30 + B29) - B30
AJ(s) == (CHOOSE x \in s : x >= B30 + B29) - B30 - B29
AnchorCell(s) == FromIJ(AF(s), ALev(s), AI(s), AJ(s))

PathsUpTo(d) == UNION {[1..l -> 0..3] : l \in 0..d}

(***************************************************************************)
(* State: <<c>> for a root (anchor) not yet expanded, otherwise            *)
(* <<anchor level, cell on its full path, <<face, level, i, j, o>>, tgt>>. *)
(* The coordinate form is carried along incrementally (one table step per  *)
(* level) so that the geometry operators cost O(1) per state; IJRoundTrip  *)
(* re-derives it from scratch with IJO on every state.  tgt is <<>> or,    *)
(* for Walk = "chain", the <<level, i, j>> of the cell the walk descends   *)
(* to.                                                                     *)
(***************************************************************************)
VARIABLE t
IsRoot == Len(t) = 1
IsCell == Len(t) = 4
IsPoint == Len(t) = 2
C == t[2]                              \* the model cell on its full path
N == Len(t[2][2])
AL == t[1]                             \* level of the anchor
A == <<t[2][1], SubSeq(t[2][2], 1, t[1])>>      \* the anchor cell
Q == SubSeq(t[2][2], t[1] + 1, Len(t[2][2]))    \* the model path below the anchor
X == <<t[3][1], t[3][2], t[3][3], t[3][4]>>     \* coordinate form <<face, level, i, j>>

ChildIJO(x, k) ==
    LET ij == PosToIJ[x[5] + 1][k + 1]
    IN  <<x[1], x[2] + 1, 2 * x[3] + (ij \div 2), 2 * x[4] + (ij % 2), Xor2(x[5], PosToOrientation[k + 1])>>

OnFaceBoundary(x) == LET m == Pow2(x[2]) - 1 IN x[3] \in {0, m} \/ x[4] \in {0, m}
AtFaceCorner(x) == LET m == Pow2(x[2]) - 1 IN x[3] \in {0, m} /\ x[4] \in {0, m}
\* d is an ancestor-or-self of the target
OnPath(d, tgt) ==
    /\ tgt # <<>> /\ d[2] <= tgt[1]
    /\ d[3] = tgt[2] \div Pow2(tgt[1] - d[2]) /\ d[4] = tgt[3] \div Pow2(tgt[1] - d[2])

Init ==
    IF Walk = "points" THEN t \in {<<"P">>}
    ELSE IF Walk = "chain"
    THEN t \in {<<0, <<AF(s), <<>>>>, <<AF(s), 0, 0, 0, AF(s) % 2>>, <<ALev(s), AI(s), AJ(s)>>>> : s \in Anchors}
    ELSE t \in {<<AnchorCell(s)>> : s \in Anchors}
Next ==
    \/ /\ Walk = "points" /\ IsRoot
       /\ t' \in {<<"P", d>> : d \in Dirs}
    \/ /\ Walk # "points" /\ IsRoot
       /\ LET c == t[1]  r == IJO(c) IN t' = <<Level(c), c, <<c[1], Level(c), r[1], r[2], r[3]>>, <<>>>>
    \/ /\ IsCell /\ N < MaxDepth
       /\ Walk = "tree" => N - AL < L
       /\ Walk = "chain" => t[4] # <<>>
       /\ \E k \in 0..3 :
            LET d == ChildIJO(t[3], k)
            IN  /\ Walk = "corner" => AtFaceCorner(d)
                /\ Walk = "edge" => OnFaceBoundary(d)
                /\ t' = <<t[1], <<C[1], Append(C[2], k)>>, d, IF OnPath(d, t[4]) THEN t[4] ELSE <<>>>>

(***************************************************************************)
(* Model theorems (INVARIANTs, evaluated on every generated cell).         *)
(***************************************************************************)
\* the Hilbert decoding is invertible; children tile the parent's square
IJRoundTrip ==
    IsCell => LET r == IJO(C) IN
        /\ t[3] = <<C[1], N, r[1], r[2], r[3]>>
        /\ FromIJ(C[1], N, r[1], r[2]) = C
        /\ r[1] \in 0..(Pow2(N) - 1) /\ r[2] \in 0..(Pow2(N) - 1) /\ r[3] \in 0..3
        /\ N < MaxLevel =>
             {<<IJO(Children(C)[k])[1], IJO(Children(C)[k])[2]>> : k \in 1..4}
               = {<<2 * r[1] + a, 2 * r[2] + b>> : a \in 0..1, b \in 0..1}
        /\ CenterLeafOK(C)

\* children partition the parent's leaf range in curve order (30-digit leaf paths)
LeafSucc(x) == Moved(x, 1, 0)
ChildrenPartition ==
    IsCell /\ N < MaxLevel =>
        LET ch == Children(C) IN
        /\ RangeMin(ch[1]) = RangeMin(C)
        /\ RangeMax(ch[4]) = RangeMax(C)
        /\ \A k \in 1..3 : LeafSucc(RangeMax(ch[k])) = RangeMin(ch[k + 1])
        /\ \A k \in 1..4 : LeafLeq(RangeMin(ch[k]), RangeMax(ch[k])) /\ Contains(C, ch[k]) /\ Parent(ch[k]) = C
        /\ \A k \in 1..4, m \in 1..4 : k # m => ~Intersects(ch[k], ch[m])

\* the same as leaf-index intervals [k 4^(L-l), (k+1) 4^(L-l)) of the depth-L model tree
RECURSIVE Idx(_, _, _)
Idx(q, k, acc) == IF k > Len(q) THEN acc ELSE Idx(q, k + 1, 4 * acc + q[k])
Lo(q) == Idx(q, 1, 0) * Pow2(2 * (L - Len(q)))
Hi(q) == Lo(q) + Pow2(2 * (L - Len(q)))
IndexPartition ==
    IsCell /\ Walk = "tree" /\ N - AL < L =>
        LET q == Q IN
        /\ Lo(Append(q, 0)) = Lo(q) /\ Hi(Append(q, 3)) = Hi(q)
        /\ \A k \in 0..2 : Hi(Append(q, k)) = Lo(Append(q, k + 1))
        /\ \A k \in 0..3 : Lo(Append(q, k)) < Hi(Append(q, k))

\* consecutive cells of one level share an edge - inside a face, across faces, and closing 5 -> 0
CurveContinuous ==
    IsCell => /\ SharesEdgeIJ(X, ToIJ(NextWrap(C))) /\ SharesEdgeIJ(X, ToIJ(PrevWrap(C)))
              /\ PrevWrap(NextWrap(C)) = C
              /\ (NextCell(C) # End(N) => NextCell(C) = NextWrap(C))
              /\ (NextCell(C) = End(N) <=> (C[1] = 5 /\ C[2] = Threes(N)))

EdgeNbrsOK ==
    IsCell => LET e == EdgeNeighborsIJ(X) IN
        /\ Cardinality({e[k] : k \in 1..4}) = 4
        /\ \A k \in 1..4 :
            /\ e[k] # NoneIJ /\ e[k][2] = N /\ ~IntersectsIJ(X, e[k])
            /\ TouchesIJ(X, e[k]) /\ SharesEdgeIJ(X, e[k])
            /\ \E m \in 1..4 : EdgeNeighborsIJ(e[k])[m] = X          \* adjacency is symmetric
            /\ ToIJ(OfIJ(e[k])) = e[k]

VLevs == {l \in {N - 1, N - 2, N - 3, N \div 2, 0} : 0 <= l /\ l < N}
ALevs == {l \in N..(N + NbrUp) : l <= MaxLevel}

\* the vertex of x's level-lev ancestor closest to x, in grid units of level max(lev,1)
ClosestVertex(x, lev) ==
    LET r1 == ParentIJ(x, lev + 1)
        k == IF r1[3] % 2 = 1 THEN (IF r1[4] % 2 = 1 THEN 2 ELSE 1) ELSE (IF r1[4] % 2 = 1 THEN 3 ELSE 0)
    IN  VertexPointIJ(ParentIJ(x, lev), k, Max(lev, 1))
VertexNbrsOK ==
    IsCell => \A lev \in VLevs :
        LET vs == VertexNeighborsIJ(X, lev)  g == Max(lev, 1)  P == ClosestVertex(X, lev) IN
        /\ ParentIJ(X, lev) \in vs
        /\ ToIJ(ParentAt(C, lev)) = ParentIJ(X, lev)
        /\ Cardinality(vs) = IF IsCubeCorner(P, g) THEN 3 ELSE 4
        /\ \A d \in vs : d[2] = lev /\ BoxHasPoint(BoxIJ(d, g), P)
        /\ \A d \in vs, e \in vs : d # e => ~IntersectsIJ(d, e)

CornerCount(x) == Cardinality({k \in 0..3 : IsCubeCorner(VertexPointIJ(x, k, Max(x[2], 1)), Max(x[2], 1))})
AllNbrsOK ==
    IsCell => \A lev \in ALevs :
        LET ns == AllNeighborsIJ(X, lev) IN
        /\ \A d \in ns : d[2] = lev /\ ~IntersectsIJ(X, d) /\ TouchesIJ(X, d)
        /\ Cardinality(ns) = 4 * Pow2(lev - N) + 4 - CornerCount(X)
        /\ lev = N => {EdgeNeighborsIJ(X)[k] : k \in 1..4} \subseteq ns

VertexCellsOK ==
    IsCell => \A k \in 0..3 :
        LET g == Max(N, 1)  P == VertexPointIJ(X, k, g)  vs == VertexCellsIJ(X, k) IN
        /\ Cardinality(vs) = IF IsCubeCorner(P, g) THEN 3 ELSE 4
        /\ \A d \in vs : BoxHasPoint(BoxIJ(d, g), P)

(***************************************************************************)
(* Partners for the two-cell relations.                                    *)
(***************************************************************************)
AncLevels == {l \in {0, AL \div 2, AL - 1} : 0 <= l /\ l < AL}
Around == {NextWrap(A), PrevWrap(A)}
\* leaf cells as limits (the documented use of MaxTile): first and last leaf of the anchor and of
\* its children, and the leaf after each of them
LeafPartners ==
    LET ds == {<<A[1], A[2] \o q>> : q \in PathsUpTo(IF AL < MaxLevel THEN 1 ELSE 0)}
        ls == UNION {{RangeMin(d), RangeMax(d), LeafSucc(RangeMax(d))} : d \in ds}
    IN  {x \in ls : x[1] <= 5}
Partners ==
    {[f |-> A[1], q |-> q, rel |-> 1] : q \in PathsUpTo(PD)}
    \cup {[f |-> g, q |-> <<>>, rel |-> 0] : g \in 0..5}
    \cup {[f |-> x[1], q |-> x[2], rel |-> 0] : x \in Around}
    \cup {[f |-> x[1], q |-> Append(x[2], k), rel |-> 0] : x \in {y \in Around : Level(y) < MaxLevel}, k \in 0..3}
    \cup {[f |-> A[1], q |-> SubSeq(A[2], 1, l), rel |-> 0] : l \in AncLevels}
    \cup {[f |-> x[1], q |-> x[2], rel |-> 0] : x \in LeafPartners}
PartnerCell(r) == IF r.rel = 1 THEN <<A[1], A[2] \o r.q>> ELSE <<r.f, r.q>>

PairLaws ==
    IsCell => \A r \in Partners : LET d == PartnerCell(r) IN
        /\ Contains(C, d) = ContainsByRange(C, d)
        /\ Intersects(C, d) = IntersectsByRange(C, d)
        /\ (r.rel = 1 /\ r.q \in {<<>>, <<2>>}) => MaxTile(C, d) = MaxTileDef(C, d)
        /\ LET m == MaxTile(C, d) IN
             m # Limit => /\ RangeMin(m) = RangeMin(C)
                          /\ LeafLess(RangeMax(m), RangeMin(d))
                          /\ (Level(m) > 0 /\ m[2][Level(m)] = 0) => ~LeafLess(RangeMax(Parent(m)), RangeMin(d))

PointsOK ==
    IsPoint => LET ad == AdmissibleLeaves(t[2])
                   nz == Cardinality({k \in 1..3 : t[2][k] # 0}) IN
        /\ Cardinality(ad) = IF nz = 1 THEN 4 ELSE IF nz = 2 THEN 4 ELSE 3
        /\ \A x \in ad, y \in ad : Touches(x, y)
        /\ \A x \in ad : ToIJ(x)[2] = MaxLevel

(***************************************************************************)
(* The replay case.                                                        *)
(***************************************************************************)
CJ(c) == [f |-> c[1], p |-> c[2]]
Steps ==
    {<<q, m>> : q \in {-5, -1, 1, 3}, m \in {0, N \div 2, N}}
    \cup {<<q, N>> : q \in {-7, 7}}
    \cup (IF N <= 28 THEN {<<25, N>>, <<-23, N>>} ELSE {})
    \cup (IF N >= 15 THEN {<<1000003, N - 10>>, <<-1000003, N - 10>>} ELSE {})
CellCase ==
    LET cl == CenterLeafIJ(C) IN
    [op |-> "cell", f |-> C[1], p |-> C[2], al |-> AL,
     ij |-> <<t[3][3], t[3][4], t[3][5]>>, cl |-> cl,
     par |-> IF N > 0 THEN CJ(Parent(C)) ELSE CJ(None),
     kids |-> IF N < MaxLevel THEN [k \in 1..4 |-> CJ(Children(C)[k])] ELSE <<>>,
     rmin |-> RangeMin(C)[2], rmax |-> RangeMax(C)[2],
     nx |-> CJ(NextCell(C)), pv |-> CJ(PrevCell(C)), nxw |-> CJ(NextWrap(C)), pvw |-> CJ(PrevWrap(C)),
     adv |-> {[q |-> s[1], m |-> s[2], a |-> CJ(Advance(C, s[1], s[2])), aw |-> CJ(AdvanceWrap(C, s[1], s[2]))] : s \in Steps},
     tok |-> TokenDigits(C), str |-> StringDigits(C),
     en |-> EdgeNeighborsIJ(X), enp |-> [k \in 1..4 |-> CJ(OfIJ(EdgeNeighborsIJ(X)[k]))],
     vn |-> {[lev |-> l, cells |-> VertexNeighborsIJ(X, l)] : l \in VLevs},
     an |-> {[lev |-> l, cells |-> AllNeighborsIJ(X, l)] : l \in ALevs},
     vc |-> [k \in 1..4 |-> VertexCellsIJ(X, k - 1)],
     pp |-> {[f |-> x.f, q |-> x.q, rel |-> x.rel,
              ct |-> Contains(C, PartnerCell(x)), cb |-> Contains(PartnerCell(x), C),
              it |-> Intersects(C, PartnerCell(x)),
              cal |-> CommonAncestorLevel(C, PartnerCell(x)),
              mt |-> LET m == MaxTile(C, PartnerCell(x)) IN IF m = Limit THEN -1 ELSE Level(m)] : x \in Partners}]
PointCase == [op |-> "pt", d |-> t[2], adm |-> {CJ(x) : x \in AdmissibleLeaves(t[2])}]

Emit ==
    IF IsCell THEN PrintT(<<"CASE", ToJson(CellCase)>>)
    ELSE IF IsPoint THEN PrintT(<<"CASE", ToJson(PointCase)>>)
    ELSE TRUE
=============================================================================
