------------------------------ MODULE Relations ------------------------------
(* C07 - world W2, self-contained.

   A REGION is a set of cells of the sphere.  The sphere is the six cube faces, each
   cut into N x N cells of the fine level GF (N = 2^GF); a cell is <<face, x, y>>.
   Cell edges are great-circle arcs, so a rectilinear loop whose vertices are cell
   corners *is* exactly a union of cells, and every relation between two such regions
   is decided by integer comparison.

   A LOOP is a record
       [f, X0, Y0, X1, Y1, nc, MX, MY, rev, m]           (fine-level corner coordinates)
   f      face
   X0..Y1 bounding box, 0 <= X0 < X1 <= N
   nc     0: rectangle; 1..4: L-shape = box minus the quadrant at corner nc
          (1 top-right, 2 top-left, 3 bottom-left, 4 bottom-right) cut at (MX,MY)
   rev    FALSE: the loop is counter-clockwise and contains the shape;
          TRUE : the same boundary walked clockwise - the loop contains the complement
                 of the shape, i.e. the rest of face f and the five other faces
                 (more than a hemisphere)
   m      spacing of the extra collinear vertices along the sides (0 = corners only)
   A loop "lives on grid level g" when all its coordinates are multiples of 2^(GF-g);
   FineLoop scales a level-g description.

   A POLYGON is a sequence of loops; its region is the set of cells contained by an
   odd number of its loops (S2's definition).  A one-loop polygon is a loop.

   The expected answers of golang/geo under S2's boundary conventions:
       A.Contains(B)   <=> Region(B) \subseteq Region(A)
       A.Intersects(B) <=> Region(A) \cap Region(B) # {}       (interiors share a cell)
   so regions that share only boundary (an edge segment, a vertex) neither intersect
   nor contain each other, and equal loops contain each other.                        *)
EXTENDS Integers, Sequences, FiniteSets

Faces == 0..5
Side(GF) == 2 ^ GF

Abs(x) == IF x < 0 THEN -x ELSE x
Sg(x) == IF x > 0 THEN 1 ELSE IF x < 0 THEN -1 ELSE 0
Reverse(s) == [i \in 1..Len(s) |-> s[Len(s) + 1 - i]]
RECURSIVE Concat(_)
Concat(ss) == IF Len(ss) = 0 THEN <<>> ELSE ss[1] \o Concat(Tail(ss))
\* sum of the values of a function with a finite set of integers as domain
RECURSIVE SumFn(_)
SumFn(fn) == IF DOMAIN fn = {} THEN 0
             ELSE LET x == CHOOSE y \in DOMAIN fn : \A z \in DOMAIN fn : y <= z
                  IN  fn[x] + SumFn([y \in DOMAIN fn \ {x} |-> fn[y]])

\* ---------------------------------------------------------------- loops ------
\* scale a description given in level-g coordinates to the fine level
FineLoop(f, g, GF, x0, y0, x1, y1, nc, mx, my, rev, pitch) ==
    LET s == 2 ^ (GF - g)
    IN  [f |-> f, X0 |-> x0 * s, Y0 |-> y0 * s, X1 |-> x1 * s, Y1 |-> y1 * s, nc |-> nc,
         MX |-> mx * s, MY |-> my * s, rev |-> rev, m |-> pitch * s, glue |-> 0]

WellFormed(l, GF) ==
    /\ l.f \in Faces /\ 0 <= l.X0 /\ l.X0 < l.X1 /\ l.X1 <= Side(GF)
    /\ 0 <= l.Y0 /\ l.Y0 < l.Y1 /\ l.Y1 <= Side(GF)
    /\ l.nc \in 0..4 /\ l.m >= 0
    /\ (l.nc # 0 => l.X0 < l.MX /\ l.MX < l.X1 /\ l.Y0 < l.MY /\ l.MY < l.Y1)

InNotch(l, x, y) ==
    CASE l.nc = 0 -> FALSE
      [] l.nc = 1 -> x >= l.MX /\ y >= l.MY
      [] l.nc = 2 -> x < l.MX /\ y >= l.MY
      [] l.nc = 3 -> x < l.MX /\ y < l.MY
      [] l.nc = 4 -> x >= l.MX /\ y < l.MY

\* the cell (x,y) of face l.f belongs to the shape (FALSE for off-face coordinates)
InShapeXY(l, x, y) == l.X0 <= x /\ x < l.X1 /\ l.Y0 <= y /\ y < l.Y1 /\ ~InNotch(l, x, y)
InShape(l, c) == c[1] = l.f /\ InShapeXY(l, c[2], c[3])
\* the region of the loop: left-hand side of the boundary as walked
LoopIn(l, c) == InShape(l, c) # l.rev

Complement(l) == [l EXCEPT !.rev = ~@]

\* corners of the shape in counter-clockwise order
Corners(l) ==
    CASE l.nc = 0 -> << <<l.X0, l.Y0>>, <<l.X1, l.Y0>>, <<l.X1, l.Y1>>, <<l.X0, l.Y1>> >>
      [] l.nc = 1 -> << <<l.X0, l.Y0>>, <<l.X1, l.Y0>>, <<l.X1, l.MY>>, <<l.MX, l.MY>>, <<l.MX, l.Y1>>, <<l.X0, l.Y1>> >>
      [] l.nc = 2 -> << <<l.X0, l.Y0>>, <<l.X1, l.Y0>>, <<l.X1, l.Y1>>, <<l.MX, l.Y1>>, <<l.MX, l.MY>>, <<l.X0, l.MY>> >>
      [] l.nc = 3 -> << <<l.MX, l.Y0>>, <<l.X1, l.Y0>>, <<l.X1, l.Y1>>, <<l.X0, l.Y1>>, <<l.X0, l.MY>>, <<l.MX, l.MY>> >>
      [] l.nc = 4 -> << <<l.X0, l.Y0>>, <<l.MX, l.Y0>>, <<l.MX, l.MY>>, <<l.X1, l.MY>>, <<l.X1, l.Y1>>, <<l.X0, l.Y1>> >>

\* side k runs from corner k to corner k+1; its points except the far end, in order
SideLen(C, k) == LET p == C[k] q == C[(k % Len(C)) + 1] IN Abs(q[1] - p[1]) + Abs(q[2] - p[2])
SidePoint(C, k, t) == LET p == C[k] q == C[(k % Len(C)) + 1]
                      IN  <<p[1] + t * Sg(q[1] - p[1]), p[2] + t * Sg(q[2] - p[2])>>
SidePts(C, k) == [t \in 1..SideLen(C, k) |-> SidePoint(C, k, t - 1)]
\* all grid points of the boundary
BoundaryPts(l) == LET C == Corners(l) IN UNION {{SidePoint(C, k, t) : t \in 0..(SideLen(C, k) - 1)} : k \in 1..Len(C)}

\* the loop's own vertices: the corners and, with spacing m, the boundary points whose
\* moving coordinate is a multiple of m
OwnPts(l) ==
    LET C == Corners(l)
        Moving(k, p) == IF C[k][1] # C[(k % Len(C)) + 1][1] THEN p[1] ELSE p[2]
    IN  UNION {{SidePoint(C, k, t) : t \in {u \in 0..(SideLen(C, k) - 1) :
                    u = 0 \/ (l.m > 0 /\ Moving(k, SidePoint(C, k, u)) % l.m = 0)}} : k \in 1..Len(C)}

(* The vertex sequence of a loop inside a scene.  vset is a set of grid points that must
   be vertices wherever they lie on this boundary: the own vertices of every loop of the
   scene.  With V(L) = OwnPts(L) \cup (vset \cap boundary(L)) for every loop L of the
   scene, a vertex of one loop lying on the boundary of another is a vertex of that one
   too, so boundaries meet only in shared vertices and bit-identical shared edges - never
   a vertex in the interior of an edge (the only configuration whose answer would depend
   on symbolic perturbation).                                                         *)
Verts(l, vset) ==
    LET C == Corners(l)
        own == OwnPts(l)
        ccw == Concat([k \in 1..Len(C) |-> SelectSeq(SidePts(C, k), LAMBDA p : p \in own \/ p \in vset)])
    IN  IF l.rev THEN Reverse(ccw) ELSE ccw

\* the same cyclic sequence starting at index j; relations do not depend on the start vertex,
\* the code does (Vertex(0)/Vertex(1) are the probes of its non-crossing shortcuts)
RotateTo(sq, j) == [k \in 1..Len(sq) |-> sq[((j + k - 2) % Len(sq)) + 1]]
\* ... starting so that the second vertex is pt (pt must occur in sq)
SecondIs(sq, pt) == LET j == CHOOSE k \in 1..Len(sq) : sq[k] = pt
                    IN  RotateTo(sq, IF j = 1 THEN Len(sq) ELSE j - 1)
IsRotationOf(a, b) == Len(a) = Len(b) /\ \E j \in 1..Len(b) : a = RotateTo(b, j)

(* A loop over TWO faces.  Face f+1 continues face f across the side x = N of f (= side x = 0
   of f+1, same y) when f is even, and across the side y = N of f (= side y = 0 of f+1, same x)
   when f is odd (the harness re-checks this adjacency numerically).  Two rectangles l2 on the
   face f-1 and l1 on the face f, with the same transverse extent and both touching the common
   side, are the two halves of one region whose boundary is a single loop; as a region it is
   the polygon <<l1, l2>> (disjoint halves, parity = union; reversing l1 gives exactly the
   complement).  GlueVerts is the boundary: the path around l1 between its two corners on the
   common side, then the path around l2 strictly between its corners on that side.
   Vertices are <<face, x, y>>.  Such a loop has very few vertices and face-sized index cells. *)
Transpose(l) == [l EXCEPT !.X0 = l.Y0, !.Y0 = l.X0, !.X1 = l.Y1, !.Y1 = l.X1, !.MX = l.MY, !.MY = l.MX]
PathBetween(v, a, b) == LET r == RotateTo(v, CHOOSE k \in 1..Len(v) : v[k] = a)
                        IN  SubSeq(r, 1, CHOOSE k \in 1..Len(r) : r[k] = b)
GlueVerts(l1, v1, l2, v2, N) ==
    LET alongX == (l2.f % 2 = 0)
        s1 == IF alongX THEN PathBetween(v1, <<0, l1.Y0>>, <<0, l1.Y1>>)
                        ELSE PathBetween(v1, <<l1.X1, 0>>, <<l1.X0, 0>>)
        s2 == IF alongX THEN PathBetween(v2, <<N, l2.Y1>>, <<N, l2.Y0>>)
                        ELSE PathBetween(v2, <<l2.X0, N>>, <<l2.X1, N>>)
    IN  [k \in 1..Len(s1) |-> <<l1.f, s1[k][1], s1[k][2]>>]
        \o [k \in 1..(Len(s2) - 2) |-> <<l2.f, s2[k + 1][1], s2[k + 1][2]>>]

(* A rectangle with a thin SPIKE: a coarse rectangle r and a fine rectangle sp (1 fine cell
   wide, a few long) standing on one of r's sides, side = 0 right, 1 top, 2 left, 3 bottom,
   at fine position pos along that side.  As a region it is the polygon <<r, sp>> (disjoint
   interiors, parity = union; reversing r gives exactly the complement); its boundary is one
   loop: around the spike from one foot to the other, then the path around r back to the first.
   Such a loop has a large index cell that contains very short edges.                       *)
SpikeRect(r, side, pos, len, wid) ==
    CASE side = 0 -> [r EXCEPT !.X0 = r.X1, !.X1 = r.X1 + len, !.Y0 = pos, !.Y1 = pos + wid, !.m = 0]
      [] side = 1 -> [r EXCEPT !.Y0 = r.Y1, !.Y1 = r.Y1 + len, !.X0 = pos, !.X1 = pos + wid, !.m = 0]
      [] side = 2 -> [r EXCEPT !.X1 = r.X0, !.X0 = r.X0 - len, !.Y0 = pos, !.Y1 = pos + wid, !.m = 0]
      [] side = 3 -> [r EXCEPT !.Y1 = r.Y0, !.Y0 = r.Y0 - len, !.X0 = pos, !.X1 = pos + wid, !.m = 0]
\* the spike stands strictly inside the side it is attached to
SpikeOK(r, sp, side) ==
    IF side \in {0, 2} THEN r.Y0 < sp.Y0 /\ sp.Y1 < r.Y1 ELSE r.X0 < sp.X0 /\ sp.X1 < r.X1
\* the feet <<b, a>>: the counter-clockwise path around sp from b to a covers its three free sides
SpikeFeet(sp, side) ==
    CASE side = 0 -> << <<sp.X0, sp.Y0>>, <<sp.X0, sp.Y1>> >>
      [] side = 1 -> << <<sp.X1, sp.Y0>>, <<sp.X0, sp.Y0>> >>
      [] side = 2 -> << <<sp.X1, sp.Y1>>, <<sp.X1, sp.Y0>> >>
      [] side = 3 -> << <<sp.X0, sp.Y1>>, <<sp.X1, sp.Y1>> >>
\* vr, vs: counter-clockwise vertex sequences of r and sp, both containing the two feet
\* The spike's own (short) edges come first in the loop: the code tests a cell's edges in index order
\* and (in this tree) keeps the candidate cells of the previous edge, so order matters to it.
SpikeVerts(vr, vs, feet) ==
    LET rest == PathBetween(vr, feet[2], feet[1])
    IN  PathBetween(vs, feet[1], feet[2]) \o SubSeq(rest, 2, Len(rest) - 1)

\* grid point (x,y) of face l.f lies on the boundary: the four cells around it disagree
OnBoundary(l, x, y) ==
    {InShapeXY(l, x - 1, y - 1), InShapeXY(l, x, y - 1), InShapeXY(l, x - 1, y), InShapeXY(l, x, y)} = {TRUE, FALSE}

TouchesFaceEdge(l, GF) == l.X0 = 0 \/ l.Y0 = 0 \/ l.X1 = Side(GF) \/ l.Y1 = Side(GF)

\* twice the signed area of the corner polygon (positive = counter-clockwise)
Area2(C) == SumFn([k \in 1..Len(C) |-> LET p == C[k] q == C[(k % Len(C)) + 1] IN p[1] * q[2] - q[1] * p[2]])
\* crossing parity of the ray from the centre of cell (x,y) towards +x with the corner polygon
RayParity(C, x, y) ==
    Cardinality({k \in 1..Len(C) : LET p == C[k] q == C[(k % Len(C)) + 1]
                                   IN  /\ p[1] = q[1] /\ p[1] > x
                                       /\ (IF p[2] < q[2] THEN p[2] <= y /\ y < q[2] ELSE q[2] <= y /\ y < p[2])}) % 2

\* model theorem: the corner sequence is a counter-clockwise boundary of exactly the shape,
\* BoundaryPts is the topological boundary, own vertices are boundary points
LoopGeometryOK(l, GF) ==
    LET C == Corners(l) N == Side(GF)
    IN  /\ Area2(C) > 0
        /\ \A x \in 0..(N - 1), y \in 0..(N - 1) : (RayParity(C, x, y) = 1) = InShapeXY(l, x, y)
        /\ BoundaryPts(l) = {p \in (0..N) \X (0..N) : OnBoundary(l, p[1], p[2])}
        /\ OwnPts(l) \subseteq BoundaryPts(l)
        /\ Area2(C) = 2 * Cardinality({p \in (0..(N - 1)) \X (0..(N - 1)) : InShapeXY(l, p[1], p[2])})

\* ------------------------------------------------------------- polygons ------
PolyIn(P, c) == Cardinality({k \in 1..Len(P) : LoopIn(P[k], c)}) % 2 = 1

AllCells(GF) == Faces \X (0..(Side(GF) - 1)) \X (0..(Side(GF) - 1))
\* one representative cell per block of the arrangement of all bounding/notch lines on the
\* faces that carry a loop, and one cell for each other face: membership in every loop is
\* constant on a block, so relations over Probes are exact (TLC proves this against AllCells
\* on small levels, invariant PairExact of Gen_Relations)
Probes(Ls, GF) ==
    LET xs == {0} \cup UNION {{Ls[k].X0, Ls[k].X1, Ls[k].MX} : k \in 1..Len(Ls)}
        ys == {0} \cup UNION {{Ls[k].Y0, Ls[k].Y1, Ls[k].MY} : k \in 1..Len(Ls)}
        fs == {Ls[k].f : k \in 1..Len(Ls)}
        ok == 0..(Side(GF) - 1)
    IN  (fs \X (xs \cap ok) \X (ys \cap ok)) \cup {<<g, 0, 0>> : g \in Faces \ fs}

\* point-set relations over a universe U of cells
RegionOn(U, P) == {c \in U : PolyIn(P, c)}
Subset(rq, rp) == rq \subseteq rp
Meets(rp, rq) == rp \cap rq # {}
ContainsOn(U, P, Q) == Subset(RegionOn(U, Q), RegionOn(U, P))
IntersectsOn(U, P, Q) == Meets(RegionOn(U, P), RegionOn(U, Q))

\* The expected answers of golang/geo (Loop and Polygon alike; a Loop is a one-loop polygon):
\* shared boundary alone is neither intersection nor containment, equal regions contain each other.
S2Contains(U, P, Q) == ContainsOn(U, P, Q)       \* P.Contains(Q)
S2Intersects(U, P, Q) == IntersectsOn(U, P, Q)   \* P.Intersects(Q)

\* the boundaries of two loops have a common point (same face only)
LoopsTouch(a, b) == a.f = b.f /\ BoundaryPts(a) \cap BoundaryPts(b) # {}
PolysTouch(P, Q) == \E i \in 1..Len(P), j \in 1..Len(Q) : LoopsTouch(P[i], Q[j])
BoundaryOnlyContact(U, P, Q) == PolysTouch(P, Q) /\ ~IntersectsOn(U, P, Q)

\* nesting inside one polygon: loop j encloses loop i when the region of i is strictly
\* included in the region of j.  LoopRegions gives the region of every loop on U once.
LoopRegions(P, U) == [k \in 1..Len(P) |-> {c \in U : LoopIn(P[k], c)}]
EnclosingIn(reg, i) == {j \in DOMAIN reg : j # i /\ reg[i] \subseteq reg[j] /\ reg[i] # reg[j]}
DepthIn(P, k, U) == Cardinality(EnclosingIn(LoopRegions(P, U), k))
TopIdx(P, U) == LET reg == LoopRegions(P, U)
                IN  CHOOSE k \in 1..Len(P) : EnclosingIn(reg, k) = {} /\ \A j \in 1..(k - 1) : EnclosingIn(reg, j) # {}
\* the complement polygon: the first top-level loop reversed
PolyComplement(P, U) == [P EXCEPT ![TopIdx(P, U)] = Complement(@)]

\* S2 polygon validity in this world: loops pairwise nested or disjoint as regions,
\* boundaries meeting at isolated points only (no two adjacent common grid points =>
\* no shared edge), all on one face, none reversed
ValidPolygon(P, U) ==
    LET reg == LoopRegions(P, U)
    IN  /\ Len(P) >= 1
        /\ \A i \in 1..Len(P) : ~P[i].rev /\ P[i].f = P[1].f
        /\ \A i, j \in 1..Len(P) : i < j =>
              /\ reg[i] \subseteq reg[j] \/ reg[j] \subseteq reg[i] \/ reg[i] \cap reg[j] = {}
              /\ reg[i] # reg[j]
              /\ LET common == BoundaryPts(P[i]) \cap BoundaryPts(P[j])
                 IN  \A p, q \in common : Abs(p[1] - q[1]) + Abs(p[2] - q[2]) # 1

\* ------------------------------------------------------------------ laws ------
\* The set-algebra laws of the property, as equations between the model's answers for a
\* pair and the complements.  rp, rq, rcp, rcq are the regions (sets of cells of U) of
\* P, Q and of the polygons the model calls their complements; touch = boundaries meet.
LawsHold(U, rp, rq, rcp, rcq, touch) ==
    /\ Meets(rp, rq) = Meets(rq, rp)
    /\ Subset(rp, rp) /\ Meets(rp, rp)
    /\ Subset(rq, rq) /\ Meets(rq, rq)
    /\ Meets(rp, rq) = ~Subset(rq, rcp)
    /\ Meets(rcp, rq) = ~Subset(rq, rp)
    /\ Meets(rq, rp) = ~Subset(rp, rcq)
    /\ Subset(rq, rp) = Subset(rcp, rcq)
    /\ Subset(rp, rq) = Subset(rcq, rcp)
    /\ rcp = U \ rp /\ rcq = U \ rq
    /\ rp # {} /\ rq # {} /\ rcp # {} /\ rcq # {}
    \* boundary-only contact: neither intersecting nor containing
    /\ (touch /\ ~Meets(rp, rq) => ~Subset(rq, rp) /\ ~Subset(rp, rq))

\* ------------------------------------------------------- nesting forests ------
(* A forest on nodes 1..n is a parent vector p with p[i] < i (0 = root); code is its
   factorial-base encoding.  Every unlabelled forest has such a labelling.             *)
Fact(k) == CASE k = 0 -> 1 [] k = 1 -> 1 [] k = 2 -> 2 [] k = 3 -> 6 [] k = 4 -> 24 [] k = 5 -> 120 [] k = 6 -> 720
ForestOf(n, code) == [i \in 1..n |-> (code \div Fact(i - 1)) % i]
Kids(p, i) == {c \in 1..Len(p) : p[c] = i}
RECURSIVE FDepth(_, _)
FDepth(p, i) == IF p[i] = 0 THEN 0 ELSE 1 + FDepth(p, p[i])
RECURSIVE Desc(_, _)
Desc(p, i) == Kids(p, i) \cup UNION {Desc(p, c) : c \in Kids(p, i)}

(* Two geometric realisations by nested rectangles (coordinates in cells of level g):
   "gap"  - a node spans its children side by side along x with one-cell gaps and one-cell
            margins; its y extent shrinks by one cell per depth: loops never touch;
   "diag" - a node is a square; its children are squares along its diagonal, consecutive
            ones touching corner to corner (shared vertices, the wedge path of
            ContainsNested); roots likewise.                                            *)
RECURSIVE FSize(_, _, _)
FSize(p, i, gap) ==
    IF Kids(p, i) = {} THEN 1
    ELSE 2 + SumFn([c \in Kids(p, i) |-> FSize(p, c, gap)]) + gap * (Cardinality(Kids(p, i)) - 1)
RECURSIVE FOff(_, _, _, _)
FOff(p, i, gap, base) ==
    LET sibs == {c \in Kids(p, p[i]) : c < i}
        before == SumFn([c \in sibs |-> FSize(p, c, gap) + gap])
    IN  IF p[i] = 0 THEN base + before ELSE FOff(p, p[i], gap, base) + 1 + before
\* rectangle <<x0, y0, x1, y1>> of node i
FRect(p, i, real, base, ylo, yhi) ==
    IF real = "gap"
    THEN LET o == FOff(p, i, 1, base) d == FDepth(p, i) IN <<o, ylo + d, o + FSize(p, i, 1), yhi - d>>
    ELSE LET o == FOff(p, i, 0, base) s == FSize(p, i, 0) IN <<o, o, o + s, o + s>>
FExtent(p, real) == SumFn([c \in Kids(p, 0) |-> FSize(p, c, IF real = "gap" THEN 1 ELSE 0)])
                    + (IF real = "gap" THEN Cardinality(Kids(p, 0)) - 1 ELSE 0)

(* REASSEMBLY.  A polygon assembled from a sub-multiset S of the same loops is a function of the
   loop geometry only - not of what the loop objects went through before (depths left behind by an
   earlier polygon).  The forest induced on S: a loop's depth is the number of its ancestors in S,
   its parent the nearest ancestor in S.                                                          *)
RECURSIVE Anc(_, _)
Anc(p, i) == IF p[i] = 0 THEN {} ELSE {p[i]} \cup Anc(p, p[i])
ReDepth(p, S, i) == Cardinality(Anc(p, i) \cap S)
ReParent(p, S, i) == LET a == Anc(p, i) \cap S
                     IN  IF a = {} THEN 0 ELSE CHOOSE j \in a : \A k \in a : FDepth(p, k) <= FDepth(p, j)
ReDesc(p, S, i) == Cardinality(Desc(p, i) \cap S)
\* the witness cell of loop j (in j and its ancestors only) is inside the polygon of S
ReInside(p, S, j) == Cardinality((Anc(p, j) \cup {j}) \cap S) % 2 = 1
\* the selections replayed after the full assembly, in this order: every loop alone (a former hole
\* alone must be a shell), everything but one loop, the roots, the odd-depth loops
ReSelections(p) ==
    LET n == Len(p)
    IN  [k \in 1..n |-> {k}] \o [k \in 1..n |-> (1..n) \ {k}]
        \o << Kids(p, 0), {i \in 1..n : FDepth(p, i) % 2 = 1} >>

\* what PolygonFromLoops must compute
WantDepth(p, i) == FDepth(p, i)
WantHole(p, i) == FDepth(p, i) % 2 = 1
WantParent(p, i) == p[i]
=============================================================================
