------------------------------- MODULE Expand -------------------------------
(***************************************************************************)
(* Extension of C11/C01 (world W3): CellUnion.ExpandAtLevel and the part   *)
(* of CellUnion.ExpandByRadius that is exactly predictable, on top of the  *)
(* combinatorial neighbour relation of Cells.tla.                          *)
(*                                                                         *)
(* Cells are ij-cells <<face, level, i, j>> with REAL levels and           *)
(* coordinates (i, j < 2^level <= 2^30), so the same definitions serve the *)
(* top embedding (anchors = faces) and the deep embeddings (anchors of     *)
(* level 30-L or of a middle level): the rim of a cell next to the border  *)
(* of its anchor leaves the anchor, which a closed model tree could not    *)
(* express.                                                                *)
(*                                                                         *)
(* Documented contract of ExpandAtLevel(level) (s2/cellunion.go): for each *)
(* cell c of the union add all cells of `level` that abut c; if c is finer *)
(* than `level`, add c.Parent(level) itself and all cells abutting it.     *)
(* The result is the normalized union of all of these.                     *)
(***************************************************************************)
EXTENDS Cells

ContainsIJ(x, y) == x[1] = y[1] /\ x[2] <= y[2] /\ ParentIJ(y, x[2]) = x
ChildrenIJ(x) == {<<x[1], x[2] + 1, 2 * x[3] + a, 2 * x[4] + b>> : a \in 0..1, b \in 0..1}
UpIJ(x) == ParentIJ(x, x[2] - 1)                      \* x[2] > 0
AncestorsIJ(x) == {ParentIJ(x, l) : l \in 0..x[2]}     \* including x

(***************************************************************************)
(* The canonical (normalized) form of the region covered by a set S of     *)
(* cells of arbitrary levels: the maximal cells covered by S.  A cell is   *)
(* covered iff a cell of S contains it or its four children are covered;   *)
(* the recursion only descends while cells of S lie strictly inside.       *)
(* This is CellUnions!Canon without materialising leaves (4^30 of them).   *)
(***************************************************************************)
RECURSIVE Covered(_, _)
Covered(S, X) ==
    \/ \E c \in S : ContainsIJ(c, X)
    \/ /\ X[2] < MaxLevel
       /\ \A ch \in ChildrenIJ(X) : \E c \in S : IntersectsIJ(c, ch)
       /\ \A ch \in ChildrenIJ(X) : Covered(S, ch)
CanonIJ(S) ==
    {X \in UNION {AncestorsIJ(c) : c \in S} : Covered(S, X) /\ (X[2] = 0 \/ ~Covered(S, UpIJ(X)))}

\* S and T cover the same region (no leaves needed: every cell of one is covered by the other)
SameRegion(S, T) == (\A s \in S : Covered(T, s)) /\ (\A x \in T : Covered(S, x))
\* what CellUnion.IsNormalized demands of the sorted cells: pairwise disjoint, no complete sibling group
IsNormalIJ(R) ==
    /\ \A x \in R, y \in R : x # y => ~IntersectsIJ(x, y)
    /\ \A x \in R : x[2] > 0 => ~(ChildrenIJ(UpIJ(x)) \subseteq R)

(***************************************************************************)
(* ExpandAtLevel.                                                          *)
(***************************************************************************)
RaiseIJ(x, lev) == IF x[2] > lev THEN ParentIJ(x, lev) ELSE x
Raised(U, lev) == {RaiseIJ(x, lev) : x \in U}
RimIJ(y, lev) == {y} \cup AllNeighborsIJ(y, lev)                   \* y[2] <= lev
ExpandCells(U, lev) == UNION {RimIJ(y, lev) : y \in Raised(U, lev)}
ExpandAtLevel(U, lev) == CanonIJ(ExpandCells(U, lev))

\* The same region stated without the ring construction (Wrap): every cell of the level
\* whose closed square meets the closed square of a raised cell.  Enumerates all 6*4^lev
\* cells of the level, so it is used for small levels only.
AllAt(lev) == {<<f, lev, i, j>> : f \in 0..5, i \in 0..(Pow2(lev) - 1), j \in 0..(Pow2(lev) - 1)}
ExpandDef(U, lev) == {z \in AllAt(lev) : \E y \in Raised(U, lev) : TouchesIJ(z, y)}

(***************************************************************************)
(* Model-level laws (INVARIANTs of Gen_Expand; E = ExpandCells(U, lev),    *)
(* R = CanonIJ(E) are computed once per case).                             *)
(***************************************************************************)
\* the result contains the input
ContainsInput(U, R) == \A u \in U : \E r \in R : ContainsIJ(r, u)
\* R is the normal form of E: same region, normalized, normalizing again changes nothing
NormalForm(E, R) == SameRegion(E, R) /\ IsNormalIJ(R) /\ CanonIJ(R) = R
                    /\ \A e \in E : \E r \in R : ContainsIJ(r, e)
\* every level-`lev` piece of the result lies in, or shares a boundary point with, a cell of the
\* input's level-`lev` ancestor set (closed boxes: independent of the folding in Wrap)
TouchLaw(U, lev, E) ==
    \A e \in E : \E y \in Raised(U, lev) : ContainsIJ(y, e) \/ (e[2] = lev /\ TouchesIJ(e, y))
\* nothing is missing: ring construction = "all cells of the level that touch" (small levels)
DefLaw(U, lev, R) == CanonIJ(ExpandDef(U, lev)) = R
\* idempotence facts that do hold: the expansion depends only on the raised input, also after
\* normalizing it (four raised siblings merge into their parent, whose rim at the level is the
\* union of their rims), and it is monotone
RaiseLaw(U, lev, R) == ExpandAtLevel(CanonIJ(Raised(U, lev)), lev) = R
MonotoneLaw(U, lev, R) == \A u \in U : \A e \in ExpandCells(U \ {u}, lev) : \E r \in R : ContainsIJ(r, e)
\* ring sizes (as in Gen_Cells!AllNbrsOK): 4 * 2^(lev - level) + 4 minus the cube corners of the cell
CornerCountIJ(x) == Cardinality({k \in 0..3 : IsCubeCorner(VertexPointIJ(x, k, Max(x[2], 1)), Max(x[2], 1))})
RingLaw(U, lev) ==
    \A y \in Raised(U, lev) :
        LET ns == AllNeighborsIJ(y, lev) IN
        /\ Cardinality(ns) = 4 * Pow2(lev - y[2]) + 4 - CornerCountIJ(y)
        /\ \A d \in ns : d[2] = lev /\ ~IntersectsIJ(y, d)

(***************************************************************************)
(* ExpandByRadius(minRadius, maxLevelDiff): the level it expands at.  The  *)
(* radius is  MinWidth.Deriv * 2^e * (a factor strictly between 1 and 2),  *)
(* i.e. strictly between two thresholds of the metric, so that             *)
(* MinWidthMetric.MaxLevel(radius) is unambiguous (Metrics.tla).           *)
(*   radiusLevel = MaxLevel(radius); if it is 0 and radius > Value(0) the  *)
(*   union is first expanded at level 0; then ExpandAtLevel(min(minLevel   *)
(*   of the input + maxLevelDiff, radiusLevel)).                           *)
(***************************************************************************)
Met == INSTANCE Metrics
MinLevelOfCells(U) == CHOOSE n \in {x[2] : x \in U} : \A x \in U : n <= x[2]
RadiusValue(e) == [s |-> 1, e |-> e, c |-> "above"]
RadiusLevel(e) == Met!MaxLevelOf(1, RadiusValue(e))
RadiusTwice(e) == RadiusLevel(e) = 0 /\ ~Met!ValGeq(1, 0, RadiusValue(e))
ByRadiusLevel(U, e, d) == Min(MinLevelOfCells(U) + d, RadiusLevel(e))
ExpandByRadius(U, e, d) ==
    LET first == IF RadiusTwice(e) THEN ExpandAtLevel(U, 0) ELSE U
    IN  ExpandAtLevel(first, ByRadiusLevel(U, e, d))
=============================================================================
