-------------------------------- MODULE Wire --------------------------------
(***************************************************************************)
(* C09 / C15: the wire formats of golang/geo as sequences of typed fields. *)
(*                                                                         *)
(*  * primitive coders: uvarint, little-endian fixed ints, zig-zag, bit    *)
(*    interleave, the 2nd-derivative coder with its two-word memory on     *)
(*    Wd-bit words (the real code uses int32; the model is parametric so   *)
(*    that wrap-around is reachable with 32-bit TLC integers), cell ids as *)
(*    bit strings;                                                         *)
(*  * abstract values: vertices (face, si, ti, exact) on a scaled-down     *)
(*    (si,ti) grid with K levels, loops, polygons, polylines, cell unions, *)
(*    and opaque float records (point, cap, rect);                         *)
(*  * the encoder of every type as a function value -> Seq(Field), the     *)
(*    lossless/compressed choice rule of Polygon.encode;                   *)
(*  * the reference decoder as a function Seq(Field) -> value (model       *)
(*    theorem Decode(Encode(v)) = v, checked by the generators);           *)
(*  * the decoder as a state machine with a sticky error, run on mutants   *)
(*    of valid encodings: position, error flag, fields consumed, the       *)
(*    allocation requests made so far; a count above its documented limit  *)
(*    is rejected before an allocation request is made for it.             *)
(*                                                                         *)
(* Floats are opaque: a float64 field carries a reference <<kind, ...>>    *)
(* into the abstract value, resolved by the harness against the real value.*)
(***************************************************************************)
EXTENDS Integers, Sequences, FiniteSets, TLC

CONSTANT K            \* model grid depth: levels 0..K, si/ti in 0..2^(K+1); 1 <= K <= 12

M == 2 ^ (K + 1)      \* the model's maxSiTi
W == K + 2            \* coder word width isomorphic to int32 for 30 levels (values < 2^K, 2nd differences fit)

\* documented limits (s2/polygon.go, s2/pointcompression.go, s2/cellunion.go, s2/loop.go)
MaxEncodedLoops == 10000000
MaxEncodedVertices == 50000000
MaxCells == 1000000
MinVerticesForBound == 64
RealMaxLevel == 30

MinI(a, b) == IF a < b THEN a ELSE b
MaxI(a, b) == IF a > b THEN a ELSE b

RECURSIVE Flat(_)
Flat(ss) == IF Len(ss) = 0 THEN <<>> ELSE ss[1] \o Flat(Tail(ss))

RECURSIVE SumSeq(_)
SumSeq(s) == IF Len(s) = 0 THEN 0 ELSE s[1] + SumSeq(Tail(s))

-----------------------------------------------------------------------------
(* Primitive coders                                                        *)

\* encoding/binary uvarint
RECURSIVE UV(_)
UV(n) == IF n < 128 THEN <<n>> ELSE <<128 + (n % 128)>> \o UV(n \div 128)
RECURSIVE UVVal(_)
UVVal(bs) == IF Len(bs) = 0 THEN 0 ELSE (bs[1] % 128) + 128 * UVVal(Tail(bs))
UVWellFormed(bs) == /\ Len(bs) >= 1 /\ bs[Len(bs)] < 128
                    /\ \A i \in 1..(Len(bs) - 1) : bs[i] >= 128

\* little-endian fixed width, 0 <= n < 2^31
LE(n, size) == [i \in 1..size |-> IF i <= 3 THEN (n \div (256 ^ (i - 1))) % 256
                                  ELSE IF i = 4 THEN n \div 16777216 ELSE 0]
RECURSIVE LEVal(_)
LEVal(bs) == IF Len(bs) = 0 THEN 0 ELSE bs[1] + 256 * LEVal(Tail(bs))

\* Wd-bit two's complement words
Wrap(x, Wd) == x % (2 ^ Wd)
Signed(r, Wd) == IF r >= 2 ^ (Wd - 1) THEN r - 2 ^ Wd ELSE r

\* zig-zag of a signed value / its inverse
ZigZag(s) == IF s >= 0 THEN 2 * s ELSE -2 * s - 1
UnZigZag(z) == IF z % 2 = 0 THEN z \div 2 ELSE -((z + 1) \div 2)

\* bit interleave: x on even bit positions, y on odd ones
RECURSIVE BitInterleave(_, _)
BitInterleave(x, y) == IF x = 0 /\ y = 0 THEN 0
                    ELSE (x % 2) + 2 * (y % 2) + 4 * BitInterleave(x \div 2, y \div 2)
RECURSIVE DeX(_)
DeX(c) == IF c = 0 THEN 0 ELSE (c % 2) + 2 * DeX(c \div 4)
DeY(c) == DeX(c \div 2)

\* nthDerivativeCoder with n = 2, written like s2/nthderivative.go: m = number of
\* memory words in use, mem = the two memory words (residues mod 2^Wd).
CoderInit == [m |-> 0, mem |-> <<0, 0>>]
CoderEnc(c, k, Wd) ==
    LET d1 == IF c.m >= 1 THEN Wrap(k - c.mem[1], Wd) ELSE k
        d2 == IF c.m >= 2 THEN Wrap(d1 - c.mem[2], Wd) ELSE d1
        nm == IF c.m = 0 THEN <<k, 0>> ELSE <<k, d1>>
    IN  [out |-> d2, c |-> [m |-> MinI(c.m + 1, 2), mem |-> nm]]
CoderDec(c, k, Wd) ==
    LET m2 == MinI(c.m + 1, 2)
        b == IF m2 >= 2 THEN Wrap(c.mem[2] + k, Wd) ELSE c.mem[2]
        k1 == IF m2 >= 2 THEN b ELSE k
        a == Wrap(c.mem[1] + k1, Wd)
    IN  [out |-> a, c |-> [m |-> m2, mem |-> <<a, b>>]]

RECURSIVE EncSeq(_, _, _)
EncSeq(c, xs, Wd) == IF Len(xs) = 0 THEN <<>>
                     ELSE LET r == CoderEnc(c, xs[1], Wd) IN <<r.out>> \o EncSeq(r.c, Tail(xs), Wd)
RECURSIVE DecSeq(_, _, _)
DecSeq(c, ys, Wd) == IF Len(ys) = 0 THEN <<>>
                     ELSE LET r == CoderDec(c, ys[1], Wd) IN <<r.out>> \o DecSeq(r.c, Tail(ys), Wd)

\* cell ids <<face, path>> as 64 bits, most significant first, and as 8 little-endian bytes
CellBits(face, path) ==
    LET pre == <<(face \div 4) % 2, (face \div 2) % 2, face % 2>>
               \o Flat([i \in 1..Len(path) |-> <<path[i] \div 2, path[i] % 2>>]) \o <<1>>
    IN  pre \o [i \in 1..(64 - Len(pre)) |-> 0]
BitsVal8(bits, from) == \* value of bits[from..from+7], msb first
    128 * bits[from] + 64 * bits[from + 1] + 32 * bits[from + 2] + 16 * bits[from + 3]
    + 8 * bits[from + 4] + 4 * bits[from + 5] + 2 * bits[from + 6] + bits[from + 7]
CellBytes(face, path) == LET bits == CellBits(face, path) IN [j \in 1..8 |-> BitsVal8(bits, 64 - 8 * j + 1)]
ByteBits(b) == <<(b \div 128) % 2, (b \div 64) % 2, (b \div 32) % 2, (b \div 16) % 2,
                 (b \div 8) % 2, (b \div 4) % 2, (b \div 2) % 2, b % 2>>
BytesToBits(bs) == Flat([j \in 1..8 |-> ByteBits(bs[9 - j])])
CellFromBytes(bs) ==
    LET bits == BytesToBits(bs)
        last == CHOOSE i \in 1..64 : bits[i] = 1 /\ \A j \in (i + 1)..64 : bits[j] = 0
        lvl == (last - 4) \div 2
    IN  [f |-> 4 * bits[1] + 2 * bits[2] + bits[3],
         p |-> [i \in 1..lvl |-> 2 * bits[2 + 2 * i] + bits[3 + 2 * i]]]

-----------------------------------------------------------------------------
(* Abstract values                                                         *)

\* a vertex: cube face, (si, ti) on the model grid, ex = the point is exactly the
\* normalised faceSiTiToXYZ(f, si, ti) (FALSE: an arbitrary nearby point with the same si, ti)
Vtx(f, si, ti, ex) == [f |-> f, si |-> si, ti |-> ti, ex |-> ex]

RECURSIVE Lsb(_)
Lsb(x) == IF x % 2 = 1 THEN 0 ELSE 1 + Lsb(x \div 2)   \* x > 0
\* level of one coordinate: MaxLevel - lsb(si | maxSiTi); -1 for 0 and M
CoordLevel(s) == IF s = 0 \/ s = M THEN -1 ELSE K - Lsb(s)
\* xyzToFaceSiTi's level: the cell level whose centre the vertex is, or -1
VLevel(v) == IF v.ex /\ CoordLevel(v.si) >= 0 /\ CoordLevel(v.si) = CoordLevel(v.ti)
             THEN CoordLevel(v.si) ELSE -1
\* siTitoPiQi
PiQi(s, L) == MinI(s, M - 1) \div (2 ^ (K + 1 - L))
\* centre coordinate of (pi at level L): the si of facePiQitoXYZ
CentreSi(p, L) == (2 * p + 1) * 2 ^ (K - L)

\* vertex <-> integer code (cfg constants cannot be tuples)
VCode(v) == ((v.f * (M + 1) + v.si) * (M + 1) + v.ti) * 2 + (IF v.ex THEN 1 ELSE 0)
VOf(c) == LET e == c % 2  r1 == c \div 2  ti == r1 % (M + 1)  r2 == r1 \div (M + 1)
          IN  Vtx(r2 \div (M + 1), r2 % (M + 1), ti, e = 1)

MkLoop(vs, oi, d) == [vs |-> vs, oi |-> oi, d |-> d]
AllVerts(loops) == Flat([i \in 1..Len(loops) |-> loops[i].vs])
HasHoles(loops) == \E i \in 1..Len(loops) : loops[i].d % 2 = 1

-----------------------------------------------------------------------------
(* Fields                                                                  *)
(* r = role, k = wire kind, v = numeric value (-1: none), b = bytes where  *)
(* the model computes them, ref = float reference, lim = documented limit  *)
(* of a count field (-1: not a limited count).                             *)

F(r, k, v, b, ref, lim) == [r |-> r, k |-> k, v |-> v, b |-> b, ref |-> ref, lim |-> lim]
FU8(r, v) == F(r, "u8", v, <<v>>, <<>>, -1)
FBool(r, x) == F(r, "bool", IF x THEN 1 ELSE 0, <<IF x THEN 1 ELSE 0>>, <<>>, -1)
FU32(r, v, lim) == F(r, "u32", v, LE(v, 4), <<>>, lim)
FI32(r, v) == F(r, "i32", v, LE(v, 4), <<>>, -1)
FI64(r, v, lim) == F(r, "i64", v, LE(v, 8), <<>>, lim)
FUV(r, v, lim) == F(r, "uv", v, UV(v), <<>>, lim)
FF64(ref) == F("f64", "f64", -1, <<>>, ref, -1)
FRaw(r, b) == F(r, "raw", -1, b, <<>>, -1)
FCell(c) == F("cellid", "u64", -1, CellBytes(c.f, c.p), <<>>, -1)

\* float references: <<1, l, i, c>> coordinate c of vertex i of loop l (0-based);
\* <<2, l, j>> field j of the bound of loop l; <<3, j>> field j of the polygon bound;
\* <<4, c>> point coordinate; <<5, j>> cap field; <<6, j>> rect field; <<7, i, c>> polyline vertex
RectFields(refBase) == <<FU8("bver", 1)>> \o [j \in 1..4 |-> FF64(refBase \o <<j - 1>>)]
XYZ(refBase) == [c \in 1..3 |-> FF64(refBase \o <<c - 1>>)]

-----------------------------------------------------------------------------
(* Encoders                                                                *)

EncPoint == <<FU8("version", 1)>> \o XYZ(<<4>>)
EncCap == [j \in 1..4 |-> FF64(<<5, j - 1>>)]
EncRect == <<FU8("version", 1)>> \o [j \in 1..4 |-> FF64(<<6, j - 1>>)]
EncCellID(c) == <<FCell(c)>>
EncCellUnion(cells) == <<FU8("version", 1), FI64("ncells", Len(cells), MaxCells)>>
                       \o [i \in 1..Len(cells) |-> FCell(cells[i])]
EncPolyline(n) == <<FU8("version", 1), FU32("nvertices", n, MaxEncodedVertices)>>
                  \o Flat([i \in 1..n |-> XYZ(<<7, i - 1>>)])

\* Loop.encode (lossless), l = 0-based index of the loop in its polygon (0 for a lone loop)
EncLoop(lp, l) ==
    <<FU8("version", 1), FU32("nvertices", Len(lp.vs), MaxEncodedVertices)>>
    \o Flat([i \in 1..Len(lp.vs) |-> XYZ(<<1, l, i - 1>>)])
    \o <<FBool("originInside", lp.oi), FI32("depth", lp.d)>>
    \o RectFields(<<2, l>>)

EncPolygonLossless(loops) ==
    <<FU8("version", 1), FU8("owns", 1), FBool("hasHoles", HasHoles(loops)),
      FU32("nloops", Len(loops), MaxEncodedLoops)>>
    \o Flat([l \in 1..Len(loops) |-> EncLoop(loops[l], l - 1)])
    \o RectFields(<<3>>)

\* face run lengths
RECURSIVE FaceRuns(_)
FaceRuns(fs) ==
    IF Len(fs) = 0 THEN <<>>
    ELSE LET n == CHOOSE j \in 1..Len(fs) : (\A i \in 1..j : fs[i] = fs[1]) /\ (j = Len(fs) \/ fs[j + 1] # fs[1])
         IN  <<[face |-> fs[1], count |-> n]>> \o FaceRuns(SubSeq(fs, n + 1, Len(fs)))

\* encodePointsCompressed for one loop at snap level L on Wd-bit words
EncPoints(vs, L, l, Wd) ==
    LET n == Len(vs)
        runs == FaceRuns([i \in 1..n |-> vs[i].f])
        ps == EncSeq(CoderInit, [i \in 1..n |-> PiQi(vs[i].si, L)], Wd)
        qs == EncSeq(CoderInit, [i \in 1..n |-> PiQi(vs[i].ti, L)], Wd)
        nb == ((L + 7) \div 8) * 2
        first == IF n = 0 THEN <<>> ELSE <<FRaw("first", LE(BitInterleave(ps[1], qs[1]), nb))>>
        rest == [i \in 1..(IF n = 0 THEN 0 ELSE n - 1) |->
                    FUV("pt", BitInterleave(ZigZag(Signed(ps[i + 1], Wd)), ZigZag(Signed(qs[i + 1], Wd))), -1)]
        off == SelectSeq([i \in 1..n |-> i], LAMBDA i : VLevel(vs[i]) # L)
    IN  [i \in 1..Len(runs) |-> FUV("facerun", 6 * runs[i].count + runs[i].face, -1)]
        \o first \o rest
        \o <<FUV("noff", Len(off), -1)>>
        \o Flat([j \in 1..Len(off) |-> <<FUV("offidx", off[j] - 1, -1)>> \o XYZ(<<1, l, off[j] - 1>>)])

\* Loop.encodeCompressed
EncLoopC(lp, L, l, Wd) ==
    LET n == Len(lp.vs)
        props == (IF lp.oi THEN 1 ELSE 0) + (IF n >= MinVerticesForBound THEN 2 ELSE 0)
    IN  <<FUV("nvertices", n, MaxEncodedVertices)>>
        \o EncPoints(lp.vs, L, l, Wd)
        \o <<FUV("props", props, -1), FUV("depth", lp.d, -1)>>
        \o (IF n >= MinVerticesForBound THEN RectFields(<<2, l>>) ELSE <<>>)

EncPolygonCompressed(loops, L, Wd) ==
    <<FU8("version", 4), FU8("snap", L), FUV("nloops", Len(loops), MaxEncodedLoops)>>
    \o Flat([l \in 1..Len(loops) |-> EncLoopC(loops[l], L, l - 1, Wd)])

\* Polygon.encode: the snap-level histogram and the size estimate
NumAtLevel(vs, L) == Cardinality({i \in 1..Len(vs) : VLevel(vs[i]) = L})
SnapLevel(vs) ==
    IF \A L \in 0..K : NumAtLevel(vs, L) = 0 THEN 0
    ELSE CHOOSE L \in 0..K : /\ \A L2 \in 0..K : NumAtLevel(vs, L2) <= NumAtLevel(vs, L)
                             /\ \A L2 \in 0..(L - 1) : NumAtLevel(vs, L2) < NumAtLevel(vs, L)
Choice(loops) ==
    LET vs == AllVerts(loops)
        n == Len(vs)
        L == SnapLevel(vs)
        u == n - NumAtLevel(vs, L)
    IN  IF n = 0 THEN [fmt |-> "compressed", snap |-> RealMaxLevel]
        ELSE IF 4 * n + 26 * u < 24 * n THEN [fmt |-> "compressed", snap |-> L]
        ELSE [fmt |-> "lossless", snap |-> L]
EncPolygon(loops) ==
    LET c == Choice(loops)
    IN  IF c.fmt = "compressed" THEN EncPolygonCompressed(loops, c.snap, W) ELSE EncPolygonLossless(loops)

-----------------------------------------------------------------------------
(* Reference decoder (function).  A decoded vertex is <<0, f, si, ti>> (the *)
(* centre of the level-L cell (f, pi, qi)) or <<1, l, i>> (the three floats *)
(* stored for vertex i of loop l).                                          *)

\* what decoding must give back for a vertex encoded at snap level L (L = -1: lossless)
VExpect(v, L, l, i) == IF L >= 0 /\ VLevel(v) = L THEN <<0, v.f, v.si, v.ti>> ELSE <<1, l, i>>
LoopExpect(lp, L, l) == [pts |-> [i \in 1..Len(lp.vs) |-> VExpect(lp.vs[i], L, l, i - 1)],
                         oi |-> lp.oi, d |-> lp.d, bound |-> (L < 0 \/ Len(lp.vs) >= MinVerticesForBound)]
PolyExpect(loops, L) == [loops |-> [l \in 1..Len(loops) |-> LoopExpect(loops[l], L, l - 1)]]

RefIsXYZ(fs, p, l, i) == \A c \in 0..2 : fs[p + c].k = "f64" /\ fs[p + c].ref = <<1, l, i, c>>
RectOK(fs, p, refBase) == /\ fs[p].v = 1
                          /\ \A j \in 1..4 : fs[p + j].k = "f64" /\ fs[p + j].ref = refBase \o <<j - 1>>

\* Loop.decode from position p; returns [v, next, ok]
DecLoop(fs, p, l) ==
    LET n == LEVal(fs[p + 1].b)
        q == p + 2 + 3 * n
    IN  [v |-> [pts |-> [i \in 1..n |-> <<1, l, i - 1>>], oi |-> (fs[q].b[1] = 1), d |-> LEVal(fs[q + 1].b), bound |-> TRUE],
         next |-> q + 7,
         ok |-> /\ fs[p].b = <<1>> /\ n <= MaxEncodedVertices
                /\ \A i \in 1..n : RefIsXYZ(fs, p + 2 + 3 * (i - 1), l, i - 1)
                /\ RectOK(fs, q + 2, <<2, l>>)]

RECURSIVE DecLoops(_, _, _, _)
DecLoops(fs, p, l, n) ==   \* n loops starting at p, first has index l
    IF n = 0 THEN [vs |-> <<>>, next |-> p, ok |-> TRUE]
    ELSE LET a == DecLoop(fs, p, l)
             r == DecLoops(fs, a.next, l + 1, n - 1)
         IN  [vs |-> <<a.v>> \o r.vs, next |-> r.next, ok |-> a.ok /\ r.ok]

DecPolygonLossless(fs) ==
    LET n == LEVal(fs[4].b)
        r == DecLoops(fs, 5, 0, n)
    IN  [v |-> [loops |-> r.vs], hasHoles |-> (fs[3].b[1] = 1),
         ok |-> fs[1].b = <<1>> /\ n <= MaxEncodedLoops /\ r.ok /\ RectOK(fs, r.next, <<3>>) /\ r.next + 4 = Len(fs)]

\* decodeFaces: runs from position p until nv vertices are covered
RECURSIVE DecFaces(_, _, _)
DecFaces(fs, p, need) ==
    IF need <= 0 THEN [faces |-> <<>>, next |-> p, ok |-> TRUE]
    ELSE LET x == UVVal(fs[p].b)
             cnt == x \div 6
             r == DecFaces(fs, p + 1, need - cnt)
         IN  [faces |-> [i \in 1..cnt |-> x % 6] \o r.faces, next |-> r.next, ok |-> cnt > 0 /\ r.ok]

\* Loop.decodeCompressed from position p at snap level L
DecLoopC(fs, p, L, l, Wd) ==
    LET n == UVVal(fs[p].b)
        fr == DecFaces(fs, p + 1, n)
        q == fr.next                       \* first point (if n > 0)
        c1 == IF n = 0 THEN 0 ELSE LEVal(fs[q].b)
        cs == [i \in 1..n |-> IF i = 1 THEN c1 ELSE UVVal(fs[q + i - 1].b)]
        pis == DecSeq(CoderInit, [i \in 1..n |-> IF i = 1 THEN DeX(cs[1]) ELSE Wrap(UnZigZag(DeX(cs[i])), Wd)], Wd)
        qis == DecSeq(CoderInit, [i \in 1..n |-> IF i = 1 THEN DeY(cs[1]) ELSE Wrap(UnZigZag(DeY(cs[i])), Wd)], Wd)
        o == q + n                         \* numOffCenter
        noff == UVVal(fs[o].b)
        offIdx == [j \in 1..noff |-> UVVal(fs[o + 1 + 4 * (j - 1)].b)]
        isOff(i) == \E j \in 1..noff : offIdx[j] = i - 1
        t == o + 1 + 4 * noff              \* props
        props == UVVal(fs[t].b)
        hasB == (props \div 2) % 2 = 1
    IN  [v |-> [pts |-> [i \in 1..n |-> IF isOff(i) THEN <<1, l, i - 1>>
                                        ELSE <<0, fr.faces[i], CentreSi(pis[i], L), CentreSi(qis[i], L)>>],
                oi |-> props % 2 = 1, d |-> UVVal(fs[t + 1].b), bound |-> hasB],
         next |-> t + 2 + (IF hasB THEN 5 ELSE 0),
         ok |-> /\ n <= MaxEncodedVertices /\ fr.ok /\ Len(fr.faces) >= n
                /\ noff <= n
                /\ \A j \in 1..noff : offIdx[j] < n /\ RefIsXYZ(fs, o + 2 + 4 * (j - 1), l, offIdx[j])
                /\ (hasB => RectOK(fs, t + 2, <<2, l>>))]

RECURSIVE DecLoopsC(_, _, _, _, _, _)
DecLoopsC(fs, p, L, l, n, Wd) ==
    IF n = 0 THEN [vs |-> <<>>, next |-> p, ok |-> TRUE]
    ELSE LET a == DecLoopC(fs, p, L, l, Wd)
             r == DecLoopsC(fs, a.next, L, l + 1, n - 1, Wd)
         IN  [vs |-> <<a.v>> \o r.vs, next |-> r.next, ok |-> a.ok /\ r.ok]

DecPolygonCompressed(fs, Wd) ==
    LET L == fs[2].b[1]
        n == UVVal(fs[3].b)
        r == DecLoopsC(fs, 4, L, 0, n, Wd)
    IN  [v |-> [loops |-> r.vs],
         ok |-> fs[1].b = <<4>> /\ L <= RealMaxLevel /\ n <= MaxEncodedLoops /\ r.ok /\ r.next = Len(fs) + 1]

DecCellUnion(fs) ==
    LET n == LEVal(fs[2].b)
    IN  [v |-> [i \in 1..n |-> CellFromBytes(fs[2 + i].b)],
         ok |-> fs[1].b = <<1>> /\ n <= MaxCells /\ Len(fs) = 2 + n]

-----------------------------------------------------------------------------
(* Transport.  An encoding is a byte sequence; a reader hands it out in     *)
(* pieces (a file, a socket, a decompressor, bufio's 4096-byte buffer).     *)
(* Decode is a function of the byte sequence alone: however the stream is   *)
(* cut into pieces, the fixed-width reads of the decoder see the same bytes.*)
(* pat = piece lengths (each >= 1), used cyclically.                        *)

RECURSIVE Pieces(_, _, _)
Pieces(bs, pat, k) ==
    IF Len(bs) = 0 THEN <<>>
    ELSE LET n == MinI(pat[((k - 1) % Len(pat)) + 1], Len(bs))
         IN  <<SubSeq(bs, 1, n)>> \o Pieces(SubSeq(bs, n + 1, Len(bs)), pat, k + 1)

StreamInit(bs, pat) == [rest |-> Pieces(bs, pat, 1)]
\* io.Reader.Read: at most `want` bytes, never across a piece boundary (a SHORT read is legal)
StreamRead(st, want) ==
    IF Len(st.rest) = 0 THEN [got |-> <<>>, eof |-> TRUE, st |-> st]
    ELSE LET p == st.rest[1]
             n == MinI(want, Len(p))
         IN  [got |-> SubSeq(p, 1, n), eof |-> FALSE,
              st |-> [rest |-> IF n = Len(p) THEN Tail(st.rest) ELSE <<SubSeq(p, n + 1, Len(p))>> \o Tail(st.rest)]]
\* io.ReadFull: Read until `want` bytes have arrived (or the stream ends: short = TRUE)
RECURSIVE StreamReadFull(_, _)
StreamReadFull(st, want) ==
    IF want = 0 THEN [got |-> <<>>, st |-> st, short |-> FALSE]
    ELSE LET r == StreamRead(st, want)
         IN  IF r.eof THEN [got |-> <<>>, st |-> st, short |-> TRUE]
             ELSE LET q == StreamReadFull(r.st, want - Len(r.got))
                  IN  [got |-> r.got \o q.got, st |-> q.st, short |-> q.short]
\* the decoder's view: the byte strings returned by its successive fixed-width reads
RECURSIVE ReadFields(_, _)
ReadFields(st, szs) ==
    IF Len(szs) = 0 THEN <<>>
    ELSE LET r == StreamReadFull(st, szs[1])
         IN  <<[b |-> r.got, short |-> r.short]>> \o ReadFields(r.st, Tail(szs))

\* re-chunking the stream leaves what the decoder reads (hence the decoded value) unchanged
ChunkingInvariant(bs, szs, pat) ==
    /\ Flat(Pieces(bs, pat, 1)) = bs
    /\ ReadFields(StreamInit(bs, pat), szs) = ReadFields(StreamInit(bs, <<Len(bs) + 1>>), szs)

\* byte widths of the fields of an encoding (float64 = 8) and a stand-in byte string of that length
FieldSizes(fs) == [i \in 1..Len(fs) |-> IF fs[i].k = "f64" THEN 8 ELSE Len(fs[i].b)]
StandIn(n) == [i \in 1..n |-> (i * 37) % 256]

-----------------------------------------------------------------------------
(* Receiver.  Decode writes into a value that may already hold a previously *)
(* decoded value.  Decode is a function of the bytes alone: every component *)
(* of the receiver, including the derived ones (vertex and edge counts, the  *)
(* cumulative edge table of polygons with more than 12 loops, the hole      *)
(* flag), is assigned from the decoded loops; nothing survives from before. *)

IsFullP(loops) == Len(loops) = 1 /\ Len(loops[1].vs) = 1 /\ loops[1].oi
VertexCounts(loops) == [i \in 1..Len(loops) |-> Len(loops[i].vs)]
CumEdges(lens) == [i \in 1..Len(lens) |-> SumSeq(SubSeq(lens, 1, i - 1))]
ZeroPoly == [loops |-> <<>>, hasHoles |-> FALSE, numVertices |-> 0, numEdges |-> 0, cum |-> <<>>]
DecodeInto(recv, loops) ==
    LET lens == VertexCounts(loops)
        full == IsFullP(loops)
    IN  [recv EXCEPT !.loops = loops, !.hasHoles = HasHoles(loops), !.numVertices = SumSeq(lens),
                     !.numEdges = IF full THEN 0 ELSE SumSeq(lens),
                     !.cum = IF ~full /\ Len(loops) > 12 THEN CumEdges(lens) ELSE <<>>]
\* Decode(receiver holding prev, bytes) = Decode(fresh, bytes)
ReceiverLaw(prevLoops, loops) ==
    DecodeInto(DecodeInto(ZeroPoly, prevLoops), loops) = DecodeInto(ZeroPoly, loops)

-----------------------------------------------------------------------------
(* Model theorems (evaluated by the generators on every model value)        *)

CoderLossless(xs, Wd) == DecSeq(CoderInit, EncSeq(CoderInit, xs, Wd), Wd) = xs
ZigZagLossless(Wd) == \A r \in 0..(2 ^ Wd - 1) :
                        /\ ZigZag(Signed(r, Wd)) \in 0..(2 ^ Wd - 1)
                        /\ Wrap(UnZigZag(ZigZag(Signed(r, Wd))), Wd) = r
InterleaveLossless(x, y) == LET c == BitInterleave(x, y) IN DeX(c) = x /\ DeY(c) = y
UVLossless(n) == UVWellFormed(UV(n)) /\ UVVal(UV(n)) = n
CellLossless(c) == CellFromBytes(CellBytes(c.f, c.p)) = c

PolygonCompressedLossless(loops, L, Wd) ==
    LET d == DecPolygonCompressed(EncPolygonCompressed(loops, L, Wd), Wd)
    IN  d.ok /\ d.v = PolyExpect(loops, L)
PolygonLosslessLossless(loops) ==
    LET d == DecPolygonLossless(EncPolygonLossless(loops))
    IN  d.ok /\ d.v = PolyExpect(loops, -1) /\ d.hasHoles = HasHoles(loops)
\* whichever format the encoder selects reproduces every vertex: a snapped vertex is
\* reproduced as the centre of its own cell, every other vertex by its three floats
ChoiceSound(loops) ==
    LET c == Choice(loops)
    IN  /\ c.fmt = "compressed" => (Len(AllVerts(loops)) = 0 \/ NumAtLevel(AllVerts(loops), c.snap) > 0)
        /\ IF c.fmt = "compressed" THEN PolygonCompressedLossless(loops, c.snap, W)
           ELSE PolygonLosslessLossless(loops)

-----------------------------------------------------------------------------
(* Mutations of a valid field sequence and the decoder state machine        *)
(* mutation = [at, m, tok, part]:  m = "none";  m = "cut": the input ends   *)
(* in front of field at (part = 0), one byte into it (1) or one byte before *)
(* its end (-1);  m = "tok": the value of field at is replaced by token tok *)

Mut(at, m, tok, part) == [at |-> at, m |-> m, tok |-> tok, part |-> part]
NoMut == Mut(0, "none", "", 0)

CountToks32 == {"0", "1", "LIMIT", "LIMIT+1", "2^31-1", "2^31", "2^32-1"}
CountToks64 == CountToks32 \cup {"2^63-1", "2^63", "2^64-1"}
FloatToks == {"NaN", "+Inf", "-Inf", "0", "-0", "1e300", "denorm", "2"}

\* is the token, read as the field's wire type, above the documented limit (all limits < 2^31-1)
TokOverLimit(f, tok) ==
    /\ f.lim >= 0
    /\ \/ tok \in {"LIMIT+1", "2^31-1", "2^31", "2^32-1", "2^63-1"}
       \/ f.k = "uv" /\ tok \in {"2^63", "2^64-1"}        \* as int64 these are negative
\* the token denotes the value the field already has
TokSame(f, tok) == f.v >= 0 /\ tok = ToString(f.v)

TokensOf(fs, i) ==
    LET f == fs[i]
        sym64 == {"2^31", "2^63", "2^64-1"}
    IN  CASE f.lim >= 0 -> (IF f.k = "u32" THEN CountToks32 ELSE CountToks64)
          [] f.r \in {"version", "bver"} -> {"0", "1", "2", "3", "4", "5", "127", "128", "255"}
          [] f.k = "bool" \/ f.r = "owns" -> {"0", "1", "2", "255"}
          [] f.r = "snap" -> {"0", "1", "29", "30", "31", "255", ToString(f.v + 1)}
          [] f.r = "facerun" -> {ToString(f.v % 6), ToString(f.v + 6), ToString(f.v + 1), ToString(5),
                                 ToString(MaxI(f.v - 6, 0))} \cup sym64
          [] f.r = "noff" -> {"0", "1", ToString(f.v + 1), "1000"} \cup sym64
          [] f.r = "offidx" -> {"0", ToString(f.v + 1), "1000", "2^31-1"} \cup sym64
          [] f.r = "props" -> {"0", "1", "2", "3", "4", "255"} \cup sym64
          [] f.r = "depth" -> {"0", "1", "2", "2^31-1", "2^32-1"} \cup (IF f.k = "uv" THEN sym64 ELSE {"2^31"})
          [] f.r = "pt" -> {"0", "1", "2^32-1"} \cup sym64
          [] f.r = "first" -> {"zeros", "ones"}
          \* ... and every value of the 3-bit face field (6 and 7 do not exist) at several levels, with a
          \* well-formed level marker: "cell:<face>:<level>"
          [] f.r = "cellid" -> {"0", "1", "2^63", "2^64-1", "2^63-1"}
                               \cup {"cell:" \o ToString(fc) \o ":" \o ToString(lv) : fc \in 0..7, lv \in {0, 1, 2, 15, 29, 30}}
          [] f.k = "f64" -> FloatToks
          [] OTHER -> {"0", "255"}

MultiByte(f) == f.k \in {"u32", "i32", "i64", "u64", "f64"} \/ (f.k \in {"uv", "raw"} /\ Len(f.b) >= 2)

SingleMuts(fs) ==
    {NoMut}
    \cup {Mut(i, "cut", "", 0) : i \in 1..Len(fs)}
    \cup {Mut(i, "cut", "", p) : i \in {j \in 1..Len(fs) : MultiByte(fs[j])}, p \in {1, -1}}
    \cup UNION {{Mut(i, "tok", t, 0) : t \in {x \in TokensOf(fs, i) : ~TokSame(fs[i], x)}} : i \in 1..Len(fs)}
    \* single bit flips: lowest bit of the first byte, highest bit of the last byte of a field
    \cup {Mut(i, "tok", t, 0) : i \in {j \in 1..Len(fs) : fs[j].k = "f64" \/ Len(fs[j].b) > 0}, t \in {"flip0", "flip7"}}

\* ---- the decoder run on a mutant -------------------------------------------
\* state: pos = next field to read, err = sticky error, why = its cause, n = fields consumed,
\* allocs = allocation requests made so far (role, count token, bytes per element), status,
\* fmut = mutated float payloads read (they do not steer the parse)

\* bytes one element of a counted field occupies once decoded (pointer + Loop struct, Point, CellID)
ElemBytes(r) == CASE r = "nloops" -> 120 [] r = "nvertices" -> 24 [] r = "ncells" -> 8 [] OTHER -> 0

DecInit == [pos |-> 1, err |-> FALSE, why |-> "", n |-> 0, allocs |-> <<>>, status |-> "RUN", fmut |-> 0]

MutsAt(ms, i) == {j \in 1..Len(ms) : ms[j].at = i}

\* one read of the decoder
DecStep(fs, ms, d) ==
    IF d.pos > Len(fs) THEN [d EXCEPT !.status = "OK"]
    ELSE
      LET f == fs[d.pos]
          here == MutsAt(ms, d.pos)
          ok == [d EXCEPT !.pos = d.pos + 1, !.n = d.n + 1,
                          !.allocs = IF f.lim >= 0 THEN Append(d.allocs, [r |-> f.r, n |-> ToString(f.v), elem |-> ElemBytes(f.r)]) ELSE d.allocs]
      IN  IF here = {} THEN ok
          ELSE LET mu == ms[CHOOSE j \in here : \A j2 \in here : j <= j2]
               IN  IF mu.m = "cut"
                   THEN \* a read at (or across) the end of the input sets the sticky error; every later
                        \* read is a no-op returning zero, so no later count can request memory
                        [d EXCEPT !.err = TRUE, !.why = "eof", !.status = "ERR"]
                   ELSE IF TokOverLimit(f, mu.tok)
                   THEN \* rejected BEFORE the allocation request is made
                        [d EXCEPT !.err = TRUE, !.why = "overlimit", !.status = "ERR"]
                   ELSE IF f.r \in {"version", "bver"}
                   THEN [d EXCEPT !.err = TRUE, !.why = "version", !.status = "ERR"]
                   ELSE IF f.r = "snap" /\ mu.tok \in {"31", "255"}
                   THEN [d EXCEPT !.err = TRUE, !.why = "snap", !.status = "ERR"]
                   ELSE IF f.k = "f64"
                   THEN \* a float payload does not steer the parse
                        [ok EXCEPT !.fmut = d.fmut + 1]
                   ELSE \* an admissible but different value: the rest of the input is read in
                        \* other roles than it was written; the model makes no prediction
                        [d EXCEPT !.status = "DESYNC",
                                  !.allocs = IF f.lim >= 0 THEN Append(d.allocs, [r |-> f.r, n |-> mu.tok, elem |-> ElemBytes(f.r)]) ELSE d.allocs]

DecDone(d) == d.status # "RUN"

\* what the property demands of the implementation for this run
Want(d) == IF d.status = "ERR" /\ d.why = "overlimit" THEN "MUST_ERROR" ELSE "ERROR_OR_USABLE"

\* properties of the machine itself
StickyError(d) == d.err => d.status = "ERR"
NoAllocOverLimit(fs, d) == \A i \in 1..Len(d.allocs) :
                              ~\E j \in 1..Len(fs) : fs[j].r = d.allocs[i].r /\ TokOverLimit(fs[j], d.allocs[i].n)
=============================================================================
