------------------------------- MODULE Cells --------------------------------
(***************************************************************************)
(* W3: the S2 cell hierarchy as a purely discrete structure.               *)
(*                                                                         *)
(* A cell is <<face, path>>: face in 0..5, path a sequence of child        *)
(* positions 0..3 (its length is the level, 0..30).  The Hilbert curve is  *)
(* defined level by level from S2's *defining* tables PosToIJ /            *)
(* PosToOrientation with start orientation face % 2 - not from the 4-bit   *)
(* lookup tables the implementation derives from them.  The cube is given  *)
(* by the (u,v,w) frames of the six faces (the definition of the           *)
(* projection in s2/stuv.go: faceUVToXYZ).  64-bit ids are never           *)
(* materialised: everything is a digit sequence or an (i,j) coordinate     *)
(* below 2^30, which fits TLC's 32-bit integers.                           *)
(***************************************************************************)
EXTENDS Integers, Sequences, FiniteSets, TLC

MaxLevel == 30

RECURSIVE P2(_)
P2(k) == IF k = 0 THEN 1 ELSE 2 * P2(k - 1)
Pow2Seq == [k \in 1..31 |-> P2(k - 1)]          \* constant, cached by TLC
Pow2(k) == Pow2Seq[k + 1]                       \* k in 0..30

FMod(v, m) == ((v % m) + m) % m
Min(a, b) == IF a < b THEN a ELSE b
Max(a, b) == IF a > b THEN a ELSE b

(***************************************************************************)
(* S2's defining tables (s2/cellid.go: posToIJ, posToOrientation).         *)
(* Orientation: bit 0 = swap axes, bit 1 = invert bits.                    *)
(***************************************************************************)
PosToIJ == << <<0, 1, 3, 2>>, <<0, 2, 3, 1>>, <<3, 2, 0, 1>>, <<3, 1, 0, 2>> >>
PosToOrientation == <<1, 0, 0, 3>>
Xor2(a, b) == (((a % 2) + (b % 2)) % 2) + 2 * (((a \div 2) + (b \div 2)) % 2)
\* the inverse table is *derived*, not transcribed
IJToPosTab == [o \in 0..3 |-> [ij \in 0..3 |-> CHOOSE pos \in 0..3 : PosToIJ[o + 1][pos + 1] = ij]]
ASSUME \A o \in 0..3 : {PosToIJ[o + 1][pos + 1] : pos \in 0..3} = 0..3

Face(c) == c[1]
Path(c) == c[2]
Level(c) == Len(c[2])
Cell(f, p) == <<f, p>>
\* pseudo cells (same shape as cells so that TLC can compare them with cells)
None == <<-1, <<>>>>        \* no such cell
Limit == <<-2, <<>>>>       \* MaxTile: "the limit itself"

Zeros(n) == [k \in 1..n |-> 0]
Threes(n) == [k \in 1..n |-> 3]

(***************************************************************************)
(* (i, j, orientation) of a cell, in units of its own level.               *)
(***************************************************************************)
RECURSIVE IJOFrom(_, _, _, _, _)
IJOFrom(p, k, i, j, o) ==
    IF k > Len(p) THEN <<i, j, o>>
    ELSE LET ij == PosToIJ[o + 1][p[k] + 1]
         IN  IJOFrom(p, k + 1, 2 * i + (ij \div 2), 2 * j + (ij % 2), Xor2(o, PosToOrientation[p[k] + 1]))
IJO(c) == IJOFrom(c[2], 1, 0, 0, c[1] % 2)

RECURSIVE PathFromIJ(_, _, _, _, _, _)
PathFromIJ(n, i, j, o, l, acc) ==
    IF l > n THEN acc
    ELSE LET bi == (i \div Pow2(n - l)) % 2
             bj == (j \div Pow2(n - l)) % 2
             pos == IJToPosTab[o][2 * bi + bj]
         IN  PathFromIJ(n, i, j, Xor2(o, PosToOrientation[pos + 1]), l + 1, Append(acc, pos))
\* the cell of level n on face f with coordinates (i, j), 0 <= i,j < 2^n
FromIJ(f, n, i, j) == <<f, PathFromIJ(n, i, j, f % 2, 1, <<>>)>>

(***************************************************************************)
(* What faceIJOrientation returns for a non-leaf cell: the id of a level-n *)
(* cell is path, then bit 1, then zeros; read as a leaf position this is   *)
(* the leaf path  p . 2 . 0 ... 0 ; the documented contract                *)
(* (centerFaceSiTi) is that this leaf is one of the two leaves closest to  *)
(* the cell centre, and the orientation is the orientation of the cell.    *)
(***************************************************************************)
CenterLeafPath(p) == IF Len(p) = MaxLevel THEN p ELSE p \o <<2>> \o Zeros(MaxLevel - Len(p) - 1)
CenterLeafIJ(c) == LET r == IJO(<<c[1], CenterLeafPath(c[2])>>) IN <<r[1], r[2]>>
CenterLeafOK(c) ==
    LET n == Level(c)  r == IJO(c)  s == Pow2(MaxLevel - n)  h == s \div 2  l == CenterLeafIJ(c)
    IN  IF n = MaxLevel THEN l = <<r[1], r[2]>>
        ELSE l \in {<<r[1] * s + h, r[2] * s + h>>, <<r[1] * s + h - 1, r[2] * s + h - 1>>}

(***************************************************************************)
(* Tree structure and leaf ranges (as 30-digit leaf paths).                *)
(***************************************************************************)
ParentAt(c, k) == <<c[1], SubSeq(c[2], 1, k)>>
Parent(c) == ParentAt(c, Level(c) - 1)
Children(c) == [k \in 1..4 |-> <<c[1], Append(c[2], k - 1)>>]
RangeMin(c) == <<c[1], c[2] \o Zeros(MaxLevel - Level(c))>>
RangeMax(c) == <<c[1], c[2] \o Threes(MaxLevel - Level(c))>>

IsPrefix(p, q) == Len(p) <= Len(q) /\ SubSeq(q, 1, Len(p)) = p
Contains(c, d) == c[1] = d[1] /\ IsPrefix(c[2], d[2])
Intersects(c, d) == Contains(c, d) \/ Contains(d, c)

\* curve order of ids: face, then digits; the id of a cell lies in the middle of
\* its range, i.e. it compares like  path . 2 . 0 0 0 ... with the convention
\* that a proper prefix is compared through that extension.
RECURSIVE SeqLess(_, _, _)
SeqLess(a, b, k) ==    \* lexicographic, equal lengths
    IF k > Len(a) THEN FALSE
    ELSE IF a[k] # b[k] THEN a[k] < b[k]
    ELSE SeqLess(a, b, k + 1)
LeafLess(x, y) == x[1] < y[1] \/ (x[1] = y[1] /\ SeqLess(x[2], y[2], 1))   \* leaves
LeafLeq(x, y) == x = y \/ LeafLess(x, y)
\* interval formulation of containment (model theorem: equals the prefix one)
ContainsByRange(c, d) == LeafLeq(RangeMin(c), RangeMin(d)) /\ LeafLeq(RangeMax(d), RangeMax(c))
IntersectsByRange(c, d) == LeafLeq(RangeMin(d), RangeMax(c)) /\ LeafLeq(RangeMin(c), RangeMax(d))

RECURSIVE CommonPrefixLen(_, _, _)
CommonPrefixLen(p, q, k) ==
    IF k > Len(p) \/ k > Len(q) \/ p[k] # q[k] THEN k - 1 ELSE CommonPrefixLen(p, q, k + 1)
\* -1: no common ancestor (different faces)
CommonAncestorLevel(c, d) == IF c[1] # d[1] THEN -1 ELSE CommonPrefixLen(c[2], d[2], 1)

(***************************************************************************)
(* Moving along the curve at the cell's own level: add q * 4^m steps       *)
(* (0 <= m <= level) by digit arithmetic with carry.  The face digit is    *)
(* returned unreduced.                                                     *)
(***************************************************************************)
RECURSIVE AddAt(_, _, _)
AddAt(p, pos, carry) ==
    IF pos = 0 \/ carry = 0 THEN <<carry, p>>
    ELSE LET v == p[pos] + carry
             d == FMod(v, 4)
         IN  AddAt([p EXCEPT ![pos] = d], pos - 1, (v - d) \div 4)
Moved(c, q, m) == LET r == AddAt(c[2], Level(c) - m, q) IN <<c[1] + r[1], r[2]>>
Begin(n) == <<0, Zeros(n)>>
End(n) == <<6, Zeros(n)>>   \* one past the last cell of level n; not a cell
\* Advance: clamped to [Begin(level), End(level)]
Advance(c, q, m) ==
    LET r == Moved(c, q, m)
    IN  IF r[1] < 0 THEN Begin(Level(c)) ELSE IF r[1] > 5 THEN End(Level(c)) ELSE r
AdvanceWrap(c, q, m) == LET r == Moved(c, q, m) IN <<FMod(r[1], 6), r[2]>>
NextCell(c) == Advance(c, 1, 0)
PrevCell(c) == LET r == Moved(c, -1, 0) IN IF r[1] < 0 THEN None ELSE r
NextWrap(c) == AdvanceWrap(c, 1, 0)
PrevWrap(c) == AdvanceWrap(c, -1, 0)

(***************************************************************************)
(* MaxTile(c, limit): the largest cell with the same RangeMin as c whose   *)
(* RangeMax is below limit's RangeMin; Limit if c does not start below   *)
(* limit.  Candidates are the prefixes of  path . 0 0 0 ...  that are not  *)
(* shorter than path minus its trailing zeros.                             *)
(***************************************************************************)
RECURSIVE TrailingZeros(_, _)
TrailingZeros(p, k) == IF k = 0 \/ p[k] # 0 THEN Len(p) - k ELSE TrailingZeros(p, k - 1)
MaxTileDef(c, lim) ==
    LET n == Level(c)
        start == RangeMin(c)
        lmin == RangeMin(lim)
        z == TrailingZeros(c[2], n)
        cand(k) == <<c[1], SubSeq(start[2], 1, k)>>
        ok == {k \in (n - z)..MaxLevel : LeafLess(RangeMax(cand(k)), lmin)}
    IN  IF ~LeafLess(start, lmin) THEN Limit
        ELSE cand(CHOOSE k \in ok : \A k2 \in ok : k <= k2)
\* The same in closed form (Gen_Cells proves the three characterising laws - same RangeMin,
\* RangeMax below the limit, parent too large - on every generated pair, and equality with
\* MaxTileDef on a sample): since c starts below the limit, a candidate ends below it iff it
\* does not contain the limit's first leaf, i.e. iff it is longer than their common prefix.
MaxTile(c, lim) ==
    LET n == Level(c)
        start == RangeMin(c)
        lmin == RangeMin(lim)
        cpl == IF c[1] = lim[1] THEN CommonPrefixLen(start[2], lmin[2], 1) ELSE -1
    IN  IF ~LeafLess(start, lmin) THEN Limit
        ELSE <<c[1], SubSeq(start[2], 1, Max(n - TrailingZeros(c[2], n), cpl + 1))>>

(***************************************************************************)
(* Text forms.  The token is the hexadecimal form of the 64 id bits        *)
(* face(3) . path(2 each) . 1 . 0*  without trailing zero digits; the      *)
(* string form is face "/" digits.                                         *)
(***************************************************************************)
IdBits(c) ==
    LET f == c[1]  p == c[2]
    IN  <<(f \div 4) % 2, (f \div 2) % 2, f % 2>>
        \o [k \in 1..(2 * Len(p)) |-> IF k % 2 = 1 THEN p[(k + 1) \div 2] \div 2 ELSE p[k \div 2] % 2]
        \o <<1>>
TokenDigits(c) ==
    LET b == IdBits(c)
        padded == b \o Zeros(FMod(-Len(b), 4))
    IN  [k \in 1..(Len(padded) \div 4) |->
            8 * padded[4 * k - 3] + 4 * padded[4 * k - 2] + 2 * padded[4 * k - 1] + padded[4 * k]]
StringDigits(c) == <<c[1]>> \o c[2]

(***************************************************************************)
(* The cube.  Face f has the right-handed frame (U, V, W): the point with  *)
(* face coordinates (u, v) is  W + u U + v V  (faceUVToXYZ); i runs along  *)
(* U and j along V.                                                        *)
(***************************************************************************)
AxU == << <<0, 1, 0>>, <<-1, 0, 0>>, <<-1, 0, 0>>, <<0, 0, -1>>, <<0, 0, -1>>, <<0, 1, 0>> >>
AxV == << <<0, 0, 1>>, <<0, 0, 1>>, <<0, -1, 0>>, <<0, -1, 0>>, <<1, 0, 0>>, <<1, 0, 0>> >>
AxW == << <<1, 0, 0>>, <<0, 1, 0>>, <<0, 0, 1>>, <<-1, 0, 0>>, <<0, -1, 0>>, <<0, 0, -1>> >>
FU(f) == AxU[f + 1]
FV(f) == AxV[f + 1]
FW(f) == AxW[f + 1]
Dot3(a, b) == a[1] * b[1] + a[2] * b[2] + a[3] * b[3]
Cross3(a, b) == << a[2]*b[3] - a[3]*b[2], a[3]*b[1] - a[1]*b[3], a[1]*b[2] - a[2]*b[1] >>
Scale3(k, a) == <<k * a[1], k * a[2], k * a[3]>>
Add3(a, b) == <<a[1] + b[1], a[2] + b[2], a[3] + b[3]>>
Neg3(a) == Scale3(-1, a)
FaceOfW(w) == CHOOSE f \in 0..5 : FW(f) = w
ASSUME \A f \in 0..5 : Cross3(FU(f), FV(f)) = FW(f)           \* right-handed frames
ASSUME \A f \in 0..2 : FW(f + 3) = Neg3(FW(f))                \* opposite faces
ASSUME \A f \in 0..5 : FW(f)[(f % 3) + 1] # 0                  \* face f is on axis f mod 3

(***************************************************************************)
(* Coordinate form of a cell: <<face, level, i, j>> ("ij-cell").  All      *)
(* geometry below is defined on ij-cells (O(1) arithmetic); the path       *)
(* versions further down are obtained through IJO / FromIJ.                *)
(***************************************************************************)
ToIJ(c) == LET r == IJO(c) IN <<c[1], Level(c), r[1], r[2]>>
OfIJ(x) == IF x[1] < 0 THEN None ELSE FromIJ(x[1], x[2], x[3], x[4])
NoneIJ == <<-1, 0, 0, 0>>
\* ancestor of x at level lev <= level of x
ParentIJ(x, lev) == <<x[1], lev, x[3] \div Pow2(x[2] - lev), x[4] \div Pow2(x[2] - lev)>>
IntersectsIJ(x, y) ==
    LET m == Min(x[2], y[2]) IN x[1] = y[1] /\ ParentIJ(x, m) = ParentIJ(y, m)

(***************************************************************************)
(* Crossing a cube edge: the cell with level-g coordinates (i, j), one of  *)
(* them out of 0..2^g-1 by one, is the cell obtained by folding the        *)
(* unfolded neighbour square over the shared cube edge.  Coordinates are   *)
(* doubled cell-centre coordinates  a = 2i + 1 - S  in units of 1/S        *)
(* (S = 2^g): the centre is  S W + a U + b V.  Leaving through +U by the   *)
(* excess e = a - S = 1 lands at  S U + (S - e) W + b V  on the face       *)
(* whose normal is +U.  Leaving through two sides at once is only          *)
(* possible at a cube corner, where no such cell exists.                   *)
(***************************************************************************)
Wrap(f, g, i, j) ==
    LET S == Pow2(g)
        iout == i < 0 \/ i >= S
        jout == j < 0 \/ j >= S
    IN  IF ~iout /\ ~jout THEN <<f, g, i, j>>
        ELSE IF iout /\ jout THEN NoneIJ
        ELSE LET a == i - (S - 1 - i)
                 b == j - (S - 1 - j)
                 D == IF iout THEN (IF i < 0 THEN Neg3(FU(f)) ELSE FU(f))
                      ELSE (IF j < 0 THEN Neg3(FV(f)) ELSE FV(f))
                 T == IF iout THEN Scale3(b, FV(f)) ELSE Scale3(a, FU(f))
                 P == Add3(Add3(Scale3(S, D), Scale3(S - 1, FW(f))), T)
                 f2 == FaceOfW(D)
             IN  <<f2, g, (Dot3(P, FU(f2)) + S - 1) \div 2, (Dot3(P, FV(f2)) + S - 1) \div 2>>

\* down, right, up, left (the documented order of CellID.EdgeNeighbors)
EdgeNeighborsIJ(x) ==
    LET f == x[1]  n == x[2]  i == x[3]  j == x[4]
    IN  <<Wrap(f, n, i, j - 1), Wrap(f, n, i + 1, j), Wrap(f, n, i, j + 1), Wrap(f, n, i - 1, j)>>

\* cells of level lev (lev < level of x) around the vertex of x's level-lev ancestor
\* that is closest to x
VertexNeighborsIJ(x, lev) ==
    LET f == x[1]
        r1 == ParentIJ(x, lev + 1)
        i == r1[3] \div 2
        j == r1[4] \div 2
        di == IF r1[3] % 2 = 1 THEN 1 ELSE -1
        dj == IF r1[4] % 2 = 1 THEN 1 ELSE -1
    IN  {Wrap(f, lev, i, j), Wrap(f, lev, i + di, j), Wrap(f, lev, i, j + dj), Wrap(f, lev, i + di, j + dj)} \ {NoneIJ}

\* cells of level lev (lev >= level of x) in the ring around x
AllNeighborsIJ(x, lev) ==
    LET f == x[1]
        R == Pow2(lev - x[2])
        i0 == x[3] * R
        j0 == x[4] * R
        ring == {<<i0 - 1, y>> : y \in (j0 - 1)..(j0 + R)} \cup {<<i0 + R, y>> : y \in (j0 - 1)..(j0 + R)}
                \cup {<<a, j0 - 1>> : a \in i0..(i0 + R - 1)} \cup {<<a, j0 + R>> : a \in i0..(i0 + R - 1)}
    IN  {Wrap(f, lev, xy[1], xy[2]) : xy \in ring} \ {NoneIJ}

(***************************************************************************)
(* Closed cells as flat axis-parallel boxes on the cube surface, in grid   *)
(* units of level g >= 1 (a face spans -H..H, H = 2^(g-1)).  Independent   *)
(* of Wrap: two closed cells touch iff their boxes intersect.              *)
(***************************************************************************)
SurfacePoint(f, H, a, b) == Add3(Add3(Scale3(H, FW(f)), Scale3(a, FU(f))), Scale3(b, FV(f)))
BoxIJ(x, g) ==
    LET s == Pow2(g - x[2])  H == Pow2(g - 1)
        p0 == SurfacePoint(x[1], H, x[3] * s - H, x[4] * s - H)
        p1 == SurfacePoint(x[1], H, (x[3] + 1) * s - H, (x[4] + 1) * s - H)
    IN  [lo |-> [k \in 1..3 |-> Min(p0[k], p1[k])], hi |-> [k \in 1..3 |-> Max(p0[k], p1[k])]]
GridFor(x, y) == Max(1, Max(x[2], y[2]))
BoxesMeet(x, y) == \A k \in 1..3 : x.lo[k] <= y.hi[k] /\ y.lo[k] <= x.hi[k]
TouchesIJ(x, y) == LET g == GridFor(x, y) IN BoxesMeet(BoxIJ(x, g), BoxIJ(y, g))
\* total extent of the common part (0 for a single point)
MeetExtent(x, y) ==
    LET e(k) == Min(x.hi[k], y.hi[k]) - Max(x.lo[k], y.lo[k]) IN e(1) + e(2) + e(3)
\* same-level cells with a whole edge in common
SharesEdgeIJ(x, y) ==
    /\ x[2] = y[2] /\ x # y
    /\ LET g == GridFor(x, y)  bx == BoxIJ(x, g)  by == BoxIJ(y, g)
       IN  BoxesMeet(bx, by) /\ MeetExtent(bx, by) = Pow2(g - x[2])
\* vertex k of x (0 = (ilo,jlo), 1 = (ihi,jlo), 2 = (ihi,jhi), 3 = (ilo,jhi): Cell.Vertex order) in grid g
VertexPointIJ(x, k, g) ==
    LET s == Pow2(g - x[2])  H == Pow2(g - 1)
        di == IF k \in {1, 2} THEN 1 ELSE 0
        dj == IF k \in {2, 3} THEN 1 ELSE 0
    IN  SurfacePoint(x[1], H, (x[3] + di) * s - H, (x[4] + dj) * s - H)
BoxHasPoint(b, P) == \A k \in 1..3 : b.lo[k] <= P[k] /\ P[k] <= b.hi[k]
Abs(v) == IF v < 0 THEN -v ELSE v
IsCubeCorner(P, g) == \A k \in 1..3 : Abs(P[k]) = Pow2(g - 1)
\* the cells of x's level whose closed square contains vertex k of x
VertexCellsIJ(x, k) ==
    LET f == x[1]  n == x[2]
        di == IF k \in {1, 2} THEN 1 ELSE -1
        dj == IF k \in {2, 3} THEN 1 ELSE -1
    IN  {x, Wrap(f, n, x[3] + di, x[4]), Wrap(f, n, x[3], x[4] + dj), Wrap(f, n, x[3] + di, x[4] + dj)} \ {NoneIJ}

\* ---- the same on path cells
Nbr(f, g, i, j) == OfIJ(Wrap(f, g, i, j))
EdgeNeighbors(c) == LET e == EdgeNeighborsIJ(ToIJ(c)) IN [k \in 1..4 |-> OfIJ(e[k])]
VertexNeighbors(c, lev) == {OfIJ(x) : x \in VertexNeighborsIJ(ToIJ(c), lev)}
AllNeighbors(c, lev) == {OfIJ(x) : x \in AllNeighborsIJ(ToIJ(c), lev)}
VertexCells(c, k) == {OfIJ(x) : x \in VertexCellsIJ(ToIJ(c), k)}
Touches(c, d) == TouchesIJ(ToIJ(c), ToIJ(d))
SharesEdge(c, d) == SharesEdgeIJ(ToIJ(c), ToIJ(d))

(***************************************************************************)
(* Points with an exact projection: the 26 directions d in {-1,0,1}^3.     *)
(* d lies on every face f with d.W_f = 1, at (u,v) = (d.U_f, d.V_f) in     *)
(* {-1,0,1}^2, i.e. on the leaf-grid line 0, 2^29 or 2^30.  Cells are      *)
(* closed: every leaf whose square contains the point is admissible.       *)
(***************************************************************************)
Dirs == {<<x, y, z>> : x \in -1..1, y \in -1..1, z \in -1..1} \ {<<0, 0, 0>>}
LeafIdxAt(u) ==     \* leaf indices whose closed interval contains grid line (u+1)*2^29
    LET gl == (u + 1) * Pow2(29) IN {x \in {gl - 1, gl} : x >= 0 /\ x < Pow2(30)}
AdmissibleLeaves(d) ==
    UNION {{FromIJ(f, MaxLevel, i, j) : i \in LeafIdxAt(Dot3(d, FU(f))), j \in LeafIdxAt(Dot3(d, FV(f)))}
           : f \in {g \in 0..5 : Dot3(d, FW(g)) = 1}}
=============================================================================
