--------------------------- MODULE Gen_EdgeQuery ----------------------------
(***************************************************************************)
(* C08: generator of concrete scenes for the replay of EdgeQuery against   *)
(* the model.                                                              *)
(*                                                                         *)
(* W1 scenes (InitW1/NextW1): shapes whose vertices are lattice directions *)
(* (a point cloud, polylines, triangles), targets that are a point, an     *)
(* edge, a face cell or another index (point cloud / polyline).  The model *)
(* computes the distance of every edge to the target EXACTLY as a          *)
(* descriptor of an angle in [0, pi]                                       *)
(*     [k |-> "c", p, q] : cos = p / sqrt(q)        (vertex case)          *)
(*     [k |-> "s", p, q] : sin^2 = p / q, <= pi/2    (edge-interior case)  *)
(* and compares descriptors by cross-multiplied integers (CmpDesc).  The   *)
(* expected answer of a query is stated tie-aware: lt[i] = number of edges *)
(* strictly closer than edge i, le[i] = number of edges at most as far;    *)
(* edge i may appear in a sorted result list exactly at the positions      *)
(* lt[i]+1 .. le[i].  lc[i] compares edge i with the distance limit (-1    *)
(* strictly within, 0 exact tie: no prediction, 1 strictly beyond).        *)
(* Furthest-edge queries are the same after negating the target            *)
(* (maxdist(T, e) = pi - mindist(-T, e)); lt/le then count from the        *)
(* furthest edge.  ins[s] says whether the target (its antipode for far)   *)
(* is certainly inside (1) / certainly outside (-1) the polygon shape s.   *)
(*                                                                         *)
(* W3 scenes (InitW3/NextW3): the geometry in which a permitted error can  *)
(* make the search stop early.  Three groups of points isolated on         *)
(* separate cube faces: a cluster of KSize identical points on face 0 (one *)
(* index cell with >= 10 edges: it is queued with a cell bound), a single  *)
(* point just across the boundary on face 1 (scanned at once), 25 filler   *)
(* points on face 3 (to reach the optimized path); an index target of two  *)
(* points q0, q1 near the cluster, q0 first, slightly further away than    *)
(* q1 (for furthest-edge queries: their antipodes).  The bound of the      *)
(* cluster's cell is then measured through q0 and is off by less than      *)
(* MaxError; the replay sweeps MaxError over the gaps of the scene.  TLC   *)
(* enumerates the step counts; no distance prediction (the verdict is the  *)
(* maxError relation against the exhaustive scan).                         *)
(*                                                                         *)
(* W4 scenes (InitW4/NextW4): search discs much smaller than the index     *)
(* cell that contains them.  Ten points spread over a cube face leave the  *)
(* face one index cell with exactly 10 edges; the targets (a point, a      *)
(* short edge) lie a few fine cells from one indexed point, the distance   *)
(* limit is a few fine cells, so the covering of the search disc consists  *)
(* of deep descendants of the index cell (initQueue's clean-up of the      *)
(* initial cells: Indexed / Subdivided / Disjoint).  TLC enumerates the    *)
(* target positions; no distance prediction.                               *)
(*                                                                         *)
(* W2 scenes (InitW2/NextW2): rectangles and rows of level-G grid cells of *)
(* several cube faces (loops of 2(w+h) grid edges, far above the           *)
(* brute-force thresholds), targets at centres of finer cells; containment *)
(* is integer comparison.  No distance prediction in W2: the replay        *)
(* compares the optimized search with the exhaustive scan of the code.     *)
(*                                                                         *)
(* Magnitudes (N <= 3, primitive vectors): |x.a| <= 27, |a x b|^2 <= 972,  *)
(* q("s") <= 27*972 = 26244, p("s") <= 26244; the largest product in       *)
(* CmpDesc is 26244^2 < 2^31.                                              *)
(***************************************************************************)
EXTENDS Exact, Json

CONSTANTS
    PointIdx,     \* indices (into PtSeq) of the vertices of the point-cloud shape
    LineSets,     \* set of disjoint sets of indices: one polyline each, through its points in index order
    TriSets,      \* set of 3-element sets of indices: one triangle (loop) each
    TgtPts,       \* indices: point targets
    TgtEdges,     \* set of 2-element sets: edge targets
    TgtClouds,    \* set of sets of indices: index targets made of a point cloud
    TgtLines,     \* set of sets of indices: index targets made of one polyline
    TgtFaces,     \* subset of 0..5: level-0 cell targets
    LimPairs,     \* set of 2-element sets {u, v}: distance limit = angle(u, v)
    GLevel,       \* W2: grid level G
    GRectCodes,   \* W2: rectangles  (((f*K + i0)*K + i1)*K + j0)*K + j1,  K = 2^G + 1
    GRowCodes,    \* W2: rows        ((f*K + i0)*K + i1)*K + j
    GTgtCodes,    \* W2: targets     (f*K2 + i)*K2 + j,  K2 = 2^(G+2): centre of that level G+2 cell
    GCloudCodes,  \* W2: set of sets of target codes: index targets made of several cell centres
    KLevel,       \* W3 (isolated clusters): grid level of all points
    KIC, KJC,     \* W3: grid corner (KIC, KJC) of face 0 carrying the cluster
    KSize,        \* W3: number of (identical) points of the cluster: 10 = one index cell that is queued, not scanned at once
    KA1,          \* W3: steps from the cluster to the target point q1 (along i)
    KA0D,         \* W3: the other target point q0 is KA1 + d steps away (along j), d in KA0D
    KRA,          \* W3: the single point lies this many steps beyond the face boundary on face 1
    QLevel,       \* W4 (tiny discs in coarse index cells): grid level of all points
    QPtCodes,     \* W4: the indexed points (f*QN + i)*QN + j, QN = 2^QLevel: cell centres; ten spread over a face
                  \*     make that face one index cell with 10 edges (queued with a cell bound, not scanned)
    QBases,       \* W4: the indexed points next to which the targets lie (subset of QPtCodes)
    QD,           \* W4: offsets + 4 (0..8: a cfg file has no negative numbers) of the target from the base point,
                  \*     in cells of level QLevel, both axes
    QR            \* W4: the distance limit is the distance of QR cells

ASSUME N \in 1..3

PtSeq == SetToSortSeq(Pts, LexLess)
NP == Len(PtSeq)

\* primitive vector of a direction (all lattice points of one direction are one point of the sphere)
Gcd3(p) == CHOOSE g \in 1..N :
              /\ p[1] % g = 0 /\ p[2] % g = 0 /\ p[3] % g = 0
              /\ \A h \in (g+1)..N : ~(p[1] % h = 0 /\ p[2] % h = 0 /\ p[3] % h = 0)
Prim(p) == LET g == Gcd3(p) IN <<p[1] \div g, p[2] \div g, p[3] \div g>>
Pt(i) == Prim(PtSeq[i])
Valid(S) == S \cap (1..NP)

(***************************************************************************)
(* exact angles                                                            *)
(***************************************************************************)
Zero == [k |-> "c", p |-> 1, q |-> 1]
CosDesc(x, a) == [k |-> "c", p |-> Dot(x, a), q |-> Norm2(x) * Norm2(a)]
Supplement(D) == [k |-> "c", p |-> -D.p, q |-> D.q]         \* pi - angle, for "c" descriptors

\* sign(cos1 - cos2) for cos = p/sqrt(q)
CosCmp(p1, q1, p2, q2) ==
    LET s1 == Sgn(p1) s2 == Sgn(p2)
    IN  IF s1 # s2 THEN Sgn(s1 - s2)
        ELSE IF s1 = 0 THEN 0
        ELSE s1 * Sgn(p1 * p1 * q2 - p2 * p2 * q1)

\* sign(angle1 - angle2)
CmpDesc(D1, D2) ==
    IF D1.k = "c" /\ D2.k = "c" THEN -CosCmp(D1.p, D1.q, D2.p, D2.q)
    ELSE IF D1.k = "s" /\ D2.k = "s" THEN Sgn(D1.p * D2.q - D2.p * D1.q)
    ELSE IF D1.k = "c"
    THEN \* D2 in [0, pi/2], cos^2 = (q2 - p2)/q2
         IF D1.p < 0 THEN 1
         ELSE IF D1.p = 0 THEN (IF D2.p = D2.q THEN 0 ELSE 1)
         ELSE -Sgn(D1.p * D1.p * D2.q - (D2.q - D2.p) * D1.q)
    ELSE -( IF D2.p < 0 THEN 1
            ELSE IF D2.p = 0 THEN (IF D1.p = D1.q THEN 0 ELSE 1)
            ELSE -Sgn(D2.p * D2.p * D1.q - (D1.q - D1.p) * D2.q) )

\* TLC evaluates operator arguments and LET definitions of state level lazily and
\* repeatedly; descriptors are therefore always collected in a tuple (evaluated eagerly)
\* and reduced by FoldLeft (Java override, works on values).
MinDesc2(D1, D2) == IF CmpDesc(D2, D1) < 0 THEN D2 ELSE D1
MinTuple(ds) == FoldLeft(MinDesc2, ds[1], ds)

\* distance of the point x to the edge ab (a = b: a point)
PtEdgeDesc(x, a, b) ==
    IF a = b THEN CosDesc(x, a)
    ELSE LET c == Cross(a, b)
         IN  IF Det(a, c, x) < 0 /\ Det(b, c, x) > 0
             THEN [k |-> "s", p |-> Dot(x, c) * Dot(x, c), q |-> Norm2(x) * Norm2(c)]
             ELSE MinTuple(<<CosDesc(x, a), CosDesc(x, b)>>)

\* distance between the edges a0a1 and b0b1 (either may be a point).  The four
\* vertex-to-edge descriptors are put into a tuple first: TLC evaluates a tuple eagerly,
\* nested operator arguments lazily (and, at state level, repeatedly).
PairDesc(a0, a1, b0, b1) ==
    IF a0 = a1 /\ b0 = b1 THEN CosDesc(a0, b0)
    ELSE IF a0 = a1 THEN PtEdgeDesc(a0, b0, b1)
    ELSE IF b0 = b1 THEN PtEdgeDesc(b0, a0, a1)
    ELSE IF CrossingSign(a0, a1, b0, b1) = "CROSS" THEN Zero
    ELSE MinTuple(<<PtEdgeDesc(a0, b0, b1), PtEdgeDesc(a1, b0, b1),
                    PtEdgeDesc(b0, a0, a1), PtEdgeDesc(b1, a0, a1)>>)

(***************************************************************************)
(* W1 scene                                                                *)
(***************************************************************************)
\* vertices of a set of indices in index order, dropping a vertex parallel to its predecessor
RECURSIVE DropParallel(_)
DropParallel(s) ==
    IF Len(s) <= 1 THEN s
    ELSE LET r == DropParallel(Front(s))
         IN  IF Parallel(Last(r), Last(s)) THEN r ELSE Append(r, Last(s))
Chain(S) == LET idx == SetToSortSeq(Valid(S), <)
            IN  DropParallel([i \in 1..Len(idx) |-> Pt(idx[i])])

CloudPts == LET idx == SetToSortSeq(Valid(PointIdx), <) IN [i \in 1..Len(idx) |-> Pt(idx[i])]
MinIdx(S) == CHOOSE m \in S : \A x \in S : m <= x
LineSeq == LET ls == {S \in LineSets : Len(Chain(S)) >= 2}
               ord == SetToSortSeq(ls, LAMBDA A, B : MinIdx(A) < MinIdx(B))
           IN  [i \in 1..Len(ord) |-> Chain(ord[i])]
\* a triangle is oriented counter-clockwise; a degenerate triple is no triangle
Tri(S) == LET idx == SetToSortSeq(Valid(S), <)
              a == Pt(idx[1]) b == Pt(idx[2]) c == Pt(idx[3])
          IN  IF Det(a, b, c) > 0 THEN <<a, b, c>> ELSE <<a, c, b>>
TriOK(S) == Cardinality(Valid(S)) = 3 /\
            LET idx == SetToSortSeq(Valid(S), <) IN Det(Pt(idx[1]), Pt(idx[2]), Pt(idx[3])) # 0
TriSeq == LET ts == {S \in TriSets : TriOK(S)}
              ord == SetToSortSeq(ts, LAMBDA A, B : MinIdx(A) < MinIdx(B) \/ (MinIdx(A) = MinIdx(B) /\ SumSet(A) < SumSet(B)))
          IN  [i \in 1..Len(ord) |-> Tri(ord[i])]

Shapes ==
    (IF Len(CloudPts) > 0 THEN <<[k |-> "pts", v |-> CloudPts]>> ELSE <<>>)
    \o [i \in 1..Len(LineSeq) |-> [k |-> "line", v |-> LineSeq[i]]]
    \o [i \in 1..Len(TriSeq) |-> [k |-> "loop", v |-> TriSeq[i]]]

\* edges of one shape as <<a, b>> in the order of Shape.Edge(i)
ShapeEdges(sh) ==
    IF sh.k = "pts" THEN [i \in 1..Len(sh.v) |-> <<sh.v[i], sh.v[i]>>]
    ELSE IF sh.k = "line" THEN [i \in 1..(Len(sh.v)-1) |-> <<sh.v[i], sh.v[i+1]>>]
    ELSE [i \in 1..Len(sh.v) |-> <<sh.v[i], sh.v[(i % Len(sh.v)) + 1]>>]
RECURSIVE Flatten(_, _)
Flatten(shs, i) == IF i > Len(shs) THEN <<>> ELSE ShapeEdges(shs[i]) \o Flatten(shs, i + 1)
AllEdges == Flatten(Shapes, 1)        \* constant: evaluated once
NE == Len(AllEdges)

(***************************************************************************)
(* targets: [k, v] with v the vertices; es = edges, rep = one point per     *)
(* connected component                                                     *)
(***************************************************************************)
TargetList ==
    LET pts == SetToSortSeq(Valid(TgtPts), <)
        eds == SetToSortSeq({S \in TgtEdges : Cardinality(Valid(S)) = 2 /\
                                \A i \in S, j \in S : i # j => ~Parallel(Pt(i), Pt(j))},
                            LAMBDA A, B : MinIdx(A) < MinIdx(B) \/ (MinIdx(A) = MinIdx(B) /\ SumSet(A) < SumSet(B)))
        cls == SetToSortSeq({S \in TgtClouds : Valid(S) # {}},
                            LAMBDA A, B : MinIdx(A) < MinIdx(B) \/ (MinIdx(A) = MinIdx(B) /\ SumSet(A) < SumSet(B)))
        lns == SetToSortSeq({S \in TgtLines : Len(Chain(S)) >= 2},
                            LAMBDA A, B : MinIdx(A) < MinIdx(B) \/ (MinIdx(A) = MinIdx(B) /\ SumSet(A) < SumSet(B)))
        fcs == SetToSortSeq(TgtFaces, <)
    IN  [i \in 1..Len(pts) |-> [k |-> "pt", v |-> <<Pt(pts[i])>>]]
        \o [i \in 1..Len(eds) |-> [k |-> "edge", v |-> Chain(eds[i])]]
        \o [i \in 1..Len(cls) |-> [k |-> "cloud", v |-> LET ix == SetToSortSeq(Valid(cls[i]), <)
                                                       IN [j \in 1..Len(ix) |-> Pt(ix[j])]]]
        \o [i \in 1..Len(lns) |-> [k |-> "pline", v |-> Chain(lns[i])]]
        \o [i \in 1..Len(fcs) |-> [k |-> "face", v |-> <<>>, f |-> fcs[i]]]
NT == Len(TargetList)

LimSeq == SetToSortSeq({S \in LimPairs : Cardinality(Valid(S)) = 2},
                       LAMBDA A, B : MinIdx(A) < MinIdx(B) \/ (MinIdx(A) = MinIdx(B) /\ SumSet(A) < SumSet(B)))

VARIABLE t
InitW1 == t \in {<<r>> : r \in 1..NT}
NextW1 == /\ Len(t) = 1
          /\ t' \in {<<t[1], far, l>> : far \in {0, 1}, l \in 1..Len(LimSeq)}
          /\ (TargetList[t[1]].k = "face" => t'[2] = 0 /\ t'[3] = 1)

Full == Len(t) = 3
Tgt == TargetList[t[1]]
Far == t[2] = 1
Sg(p) == IF Far THEN Neg(p) ELSE p

\* the target's edges as a tuple of pairs, negated for furthest-edge queries
TgtEdgesOf(tg) ==
    IF tg.k \in {"pt", "cloud"}
    THEN FoldLeft(LAMBDA acc, x : Append(acc, <<Sg(x), Sg(x)>>), <<>>, tg.v)
    ELSE FoldLeft(LAMBDA acc, i : Append(acc, <<Sg(tg.v[i]), Sg(tg.v[i+1])>>), <<>>,
                  [i \in 1..(Len(tg.v)-1) |-> i])
TgtReps(tg) == IF tg.k \in {"pt", "cloud"} THEN {tg.v[i] : i \in 1..Len(tg.v)} ELSE {tg.v[1]}

\* distance of the edge e of the scene to the target: minimum over the target's edges
EdgeDesc(tes, e) ==
    MinTuple(FoldLeft(LAMBDA acc, te : Append(acc, PairDesc(te[1], te[2], e[1], e[2])), <<>>, tes))
\* the descriptors of all edges of the scene as a tuple
DescSeq(tes) == FoldLeft(LAMBDA acc, e : Append(acc, EdgeDesc(tes, e)), <<>>, AllEdges)

LimDesc(l) == LET ix == SetToSortSeq(Valid(LimSeq[l]), <)
                  D == CosDesc(Pt(ix[1]), Pt(ix[2]))
              IN  IF Far THEN Supplement(D) ELSE D
LimPts(l) == LET ix == SetToSortSeq(Valid(LimSeq[l]), <) IN <<Pt(ix[1]), Pt(ix[2])>>

\* containment of a point in a triangle (counter-clockwise, convex)
TriSide(tr, x) ==
    LET d1 == Det(tr[1], tr[2], x) d2 == Det(tr[2], tr[3], x) d3 == Det(tr[3], tr[1], x)
    IN  IF d1 > 0 /\ d2 > 0 /\ d3 > 0 THEN 1 ELSE IF d1 < 0 \/ d2 < 0 \/ d3 < 0 THEN -1 ELSE 0
\* the edge query tests the midpoint of an edge target: certainly inside if both ends are
\* (the triangle is convex), never certainly outside
InsideFlag(sh, tg) ==
    IF sh.k # "loop" THEN -1
    ELSE IF tg.k = "edge"
    THEN (IF TriSide(sh.v, Sg(tg.v[1])) = 1 /\ TriSide(sh.v, Sg(tg.v[2])) = 1 THEN 1 ELSE 0)
    ELSE LET sides == {TriSide(sh.v, Sg(x)) : x \in TgtReps(tg)}
         IN  IF 1 \in sides THEN 1 ELSE IF sides = {-1} THEN -1 ELSE 0

\* level-0 cell target: is the point strictly inside / strictly outside the closed face f
FaceSide(f, p) ==
    LET ax == (f % 3) + 1
        sg == IF f < 3 THEN 1 ELSE -1
        o1 == (ax % 3) + 1
        o2 == ((ax + 1) % 3) + 1
        w == sg * p[ax]
    IN  IF w > Abs(p[o1]) /\ w > Abs(p[o2]) THEN 1
        ELSE IF w > 0 /\ w >= Abs(p[o1]) /\ w >= Abs(p[o2]) THEN 0 ELSE -1
\* the boundary of the face cell: four edges between cube corners, which are lattice points
FaceCorner(f, k) ==
    LET ax == (f % 3) + 1
        sg == IF f < 3 THEN 1 ELSE -1
        o1 == (ax % 3) + 1
        s1 == IF k \in {1, 4} THEN -1 ELSE 1
        s2 == IF k \in {1, 2} THEN -1 ELSE 1
    IN  [i \in 1..3 |-> IF i = ax THEN sg ELSE IF i = o1 THEN s1 ELSE s2]
FaceCrosses(f, e) ==
    e[1] # e[2] /\ \E k \in 1..4 :
        LET c == FaceCorner(f, k) d == FaceCorner(f, (k % 4) + 1)
        IN  CrossingSign(e[1], e[2], c, d) = "CROSS" /\ CrossingRobust(e[1], e[2], c, d)
\* 1: the edge certainly meets the face (an endpoint strictly inside, or a proper crossing of
\* its boundary): distance exactly zero; -1: certainly positive; 0: no prediction
FaceZero(f, e) ==
    IF FaceSide(f, e[1]) = 1 \/ FaceSide(f, e[2]) = 1 \/ FaceCrosses(f, e) THEN 1
    ELSE IF e[1] = e[2] /\ FaceSide(f, e[1]) = -1 THEN -1 ELSE 0

\* D: tuple of the descriptors of all edges, L: descriptor of the limit (both values)
CaseFrom(D, L) ==
    [op |-> "eq", w |-> 1, shapes |-> Shapes, tgt |-> Tgt, far |-> Far,
     lt |-> [i \in 1..NE |-> Cardinality({j \in 1..NE : CmpDesc(D[j], D[i]) < 0})],
     le |-> [i \in 1..NE |-> Cardinality({j \in 1..NE : CmpDesc(D[j], D[i]) <= 0})],
     lim |-> LimPts(t[3]),
     lc |-> [i \in 1..NE |-> CmpDesc(D[i], L)],
     ins |-> [s \in 1..Len(Shapes) |-> InsideFlag(Shapes[s], Tgt)]]
CaseW1 ==
    IF Tgt.k = "face"
    THEN [op |-> "eq", w |-> 1, shapes |-> Shapes, tgt |-> Tgt, far |-> FALSE,
          fz |-> [i \in 1..NE |-> FaceZero(Tgt.f, AllEdges[i])]]
    ELSE \* bound variables hold values: D and L are computed once
         CHOOSE r \in UNION {{CaseFrom(D, L) : D \in {DescSeq(T)}, L \in {LimDesc(t[3])}} : T \in {TgtEdgesOf(Tgt)}} : TRUE

EmitW1 == IF Full THEN PrintT(<<"CASE", ToJson(CaseW1)>>) ELSE TRUE

(***************************************************************************)
(* model-level laws of the oracle, checked on every emitted case           *)
(***************************************************************************)
\* the comparison of exact angles is a total preorder on the distances of the case,
\* consistent under exchange of its arguments
OracleOrder ==
    (Full /\ Tgt.k # "face") =>
        \A T \in {TgtEdgesOf(Tgt)} : \A D \in {DescSeq(T)} :
            /\ \A i \in 1..NE : CmpDesc(D[i], D[i]) = 0
            /\ \A i \in 1..NE, j \in 1..NE : CmpDesc(D[i], D[j]) = -CmpDesc(D[j], D[i])
            /\ \A i \in 1..NE, j \in 1..NE, k \in 1..NE :
                  (i < 6 /\ CmpDesc(D[i], D[j]) <= 0 /\ CmpDesc(D[j], D[k]) <= 0) => CmpDesc(D[i], D[k]) <= 0
\* point-to-point distances agree with Exact!CmpDist
OracleAgreesWithExact ==
    (Full /\ Tgt.k = "pt" /\ ~Far) =>
        \A i \in 1..NE, j \in 1..NE :
            (AllEdges[i][1] = AllEdges[i][2] /\ AllEdges[j][1] = AllEdges[j][2]) =>
                CmpDesc(CosDesc(Tgt.v[1], AllEdges[i][1]), CosDesc(Tgt.v[1], AllEdges[j][1]))
                    = CmpDist(Tgt.v[1], AllEdges[i][1], AllEdges[j][1])

(***************************************************************************)
(* W2 scenes                                                               *)
(***************************************************************************)
GPow2(n) == IF n = 0 THEN 1 ELSE IF n = 1 THEN 2 ELSE IF n = 2 THEN 4 ELSE IF n = 3 THEN 8
           ELSE IF n = 4 THEN 16 ELSE IF n = 5 THEN 32 ELSE IF n = 6 THEN 64 ELSE 128
GK == GPow2(GLevel) + 1
GK2 == GPow2(GLevel + 2)
RectOf(c) == [f |-> c \div (GK*GK*GK*GK), i0 |-> (c \div (GK*GK*GK)) % GK, i1 |-> (c \div (GK*GK)) % GK,
              j0 |-> (c \div GK) % GK, j1 |-> c % GK]
RowOf(c) == [f |-> c \div (GK*GK*GK), i0 |-> (c \div (GK*GK)) % GK, i1 |-> (c \div GK) % GK, j |-> c % GK]
GTgtOf(c) == [f |-> c \div (GK2*GK2), i |-> (c \div GK2) % GK2, j |-> c % GK2]
RectOK(r) == r.f \in 0..5 /\ r.i0 < r.i1 /\ r.j0 < r.j1
RowOK(r) == r.f \in 0..5 /\ r.i0 < r.i1
\* boundary of the rectangle, counter-clockwise, one vertex per grid corner: [f, level, i, j]
RectLoop(r) ==
    [k \in 1..(r.i1 - r.i0) |-> <<r.f, GLevel, r.i0 + k - 1, r.j0>>]
    \o [k \in 1..(r.j1 - r.j0) |-> <<r.f, GLevel, r.i1, r.j0 + k - 1>>]
    \o [k \in 1..(r.i1 - r.i0) |-> <<r.f, GLevel, r.i1 - k + 1, r.j1>>]
    \o [k \in 1..(r.j1 - r.j0) |-> <<r.f, GLevel, r.i0, r.j1 - k + 1>>]
RowLine(r) == [k \in 1..(r.i1 - r.i0 + 1) |-> <<r.f, GLevel, r.i0 + k - 1, r.j>>]
GRects == LET cs == SetToSortSeq({c \in GRectCodes : RectOK(RectOf(c))}, <) IN [i \in 1..Len(cs) |-> RectOf(cs[i])]
GRows == LET cs == SetToSortSeq({c \in GRowCodes : RowOK(RowOf(c))}, <) IN [i \in 1..Len(cs) |-> RowOf(cs[i])]
GShapesAll ==
    [i \in 1..Len(GRects) |-> [k |-> "gloop", v |-> RectLoop(GRects[i])]]
    \o [i \in 1..Len(GRows) |-> [k |-> "gline", v |-> RowLine(GRows[i])]]
GTgts == SetToSortSeq(GTgtCodes, <)
\* the centre of the level G+2 cell (i, j) of face f is strictly inside the rectangle iff ...
GInside(r, tg) == tg.f = r.f /\ 4 * r.i0 <= tg.i /\ tg.i < 4 * r.i1 /\ 4 * r.j0 <= tg.j /\ tg.j < 4 * r.j1

GClouds == SetToSortSeq({c \in GCloudCodes : c # {}},
                        LAMBDA A, B : MinIdx(A) < MinIdx(B) \/ (MinIdx(A) = MinIdx(B) /\ SumSet(A) < SumSet(B)))
InitW2 == t \in {<<r>> : r \in 1..(Len(GTgts) + Len(GClouds))}
NextW2 == Len(t) = 1 /\ t' \in {<<t[1], far, 1>> : far \in {0, 1}}
CaseW2 ==
    LET codes == IF t[1] <= Len(GTgts) THEN <<GTgts[t[1]]>> ELSE SetToSortSeq(GClouds[t[1] - Len(GTgts)], <)
        tgs == [i \in 1..Len(codes) |-> GTgtOf(codes[i])]
    IN  [op |-> "eq", w |-> 2, shapes |-> GShapesAll,
         tgt |-> [k |-> IF Len(codes) = 1 THEN "gctr" ELSE "gcloud",
                  v |-> [i \in 1..Len(tgs) |-> <<tgs[i].f, GLevel + 2, tgs[i].i, tgs[i].j>>]],
         far |-> Far,
         \* one connected component of the target inside the polygon is enough
         ins |-> [s \in 1..Len(GShapesAll) |->
                    IF s > Len(GRects) THEN -1
                    ELSE IF Far THEN 0
                    ELSE IF \E i \in 1..Len(tgs) : GInside(GRects[s], tgs[i]) THEN 1 ELSE -1]]
EmitW2 == IF Full THEN PrintT(<<"CASE", ToJson(CaseW2)>>) ELSE TRUE
(***************************************************************************)
(* W3 scenes                                                               *)
(***************************************************************************)
InitW3 == t \in {<<a1>> : a1 \in KA1}
NextW3 == Len(t) = 1 /\ t' \in {<<t[1], d, ra, far>> : d \in KA0D, ra \in KRA, far \in {0, 1}}
KN == 2 ^ KLevel
\* a vertex [f, level, i, j, 2] is the centre of the level-KLevel cell (i, j) of face f (a centre
\* is interior to its cells of all levels, so a lone cluster gets a small index cell),
\* [f, level, i, j, 3] the antipode of that centre
KT(f, i, j, far) == <<f, KLevel, i, j, 2 + far>>
CaseW3 ==
    LET a1 == t[1] d == t[2] ra == t[3] far == t[4]
        cl == [k \in 1..KSize |-> <<0, KLevel, KIC, KJC, 2>>]
        single == <<1, KLevel, ra, KJC, 2>>
        filler == [k \in 1..25 |-> <<3, KLevel, KN \div 4 + 7 * ((k - 1) % 5), KN \div 4 + 7 * ((k - 1) \div 5), 2>>]
    IN  [op |-> "eq", w |-> 3, sweep |-> TRUE, far |-> far = 1,
         shapes |-> <<[k |-> "pts", v |-> cl \o <<single>> \o filler]>>,
         tgt |-> [k |-> "cloud", v |-> <<KT(0, KIC, KJC + a1 + d, far), KT(0, KIC + a1, KJC, far)>>]]
W3OK == KIC + Max(KA1) < KN /\ KJC + Max(KA1) + Max(KA0D) < KN /\ Max(KRA) < KN
EmitW3 == IF Len(t) = 4 THEN W3OK /\ PrintT(<<"CASE", ToJson(CaseW3)>>) ELSE TRUE

(***************************************************************************)
(* W4 scenes                                                               *)
(***************************************************************************)
QN == 2 ^ QLevel
QF(c) == c \div (QN * QN)
QI(c) == (c \div QN) % QN
QJ(c) == c % QN
QCtr(f, i, j) == <<f, QLevel, i, j, 2>>
InitW4 == t \in {<<b>> : b \in QBases}
NextW4 == Len(t) = 1 /\ t' \in {<<t[1], di - 4, dj - 4, k, 0>> : di \in QD, dj \in QD, k \in {0, 1}}
W4OK == \A b \in QBases : \A x \in QD :
            /\ QI(b) + x - 4 >= 0 /\ QI(b) + x - 3 < QN /\ QJ(b) + x - 4 >= 0 /\ QJ(b) + x - 3 < QN
            /\ QI(b) + QR < QN
CaseW4 ==
    LET b == t[1] di == t[2] dj == t[3]
        cs == SetToSortSeq(QPtCodes, <)
        tg(x, y) == QCtr(QF(b), QI(b) + x, QJ(b) + y)
    IN  [op |-> "eq", w |-> 4, far |-> FALSE,
         shapes |-> <<[k |-> "pts", v |-> [n \in 1..Len(cs) |-> QCtr(QF(cs[n]), QI(cs[n]), QJ(cs[n]))]]>>,
         tgt |-> IF t[4] = 0 THEN [k |-> "pt", v |-> <<tg(di, dj)>>]
                 ELSE [k |-> "edge", v |-> <<tg(di, dj), tg(di + 1, dj + 1)>>],
         lim |-> <<tg(0, 0), tg(QR, 0)>>]
EmitW4 == IF Len(t) = 5 THEN W4OK /\ PrintT(<<"CASE", ToJson(CaseW4)>>) ELSE TRUE

\* the grid loops are simple: 2(w+h) distinct corners
GridLoopsSimple ==
    \A i \in 1..Len(GRects) :
        LET l == RectLoop(GRects[i]) IN Cardinality({l[k] : k \in 1..Len(l)}) = Len(l)
=============================================================================
