------------------------------ MODULE Gen_Caps ------------------------------
(***************************************************************************)
(* C19 generator for s2.Cap and s1.ChordAngle.  One state per cap (unary   *)
(* cases: every lattice probe, every expansion) and per ordered pair of    *)
(* caps; one state per pair of chord angles.                               *)
(***************************************************************************)
EXTENDS Intervals, SequencesExt, Json

CONSTANT Fams            \* subset of {"cap", "chord"}
CONSTANT CIdxA, CIdxB    \* indices into DirSeq: centres of first / second operands
CONSTANT CtSeed          \* seed of the off-grid offsets of family "ct" (passed through to the replay)
CONSTANT EAK, EBK        \* radii (eighths) + 100 of first / second operands

DirSeq == SetToSeq(Dirs)
CA == {DirSeq[i] : i \in CIdxA \cap (1..Len(DirSeq))}
CB == {DirSeq[i] : i \in CIdxB \cap (1..Len(DirSeq))}
EA == {k - 100 : k \in EAK}
EB == {k - 100 : k \in EBK}
Deltas == {0, 1, 2, 3, 4, 6, 8, 12}          \* expansion distances, units of pi/12

VARIABLE t
Init == t \in UNION {
            IF "cap" \in Fams THEN {<<"cap", <<c, e>>>> : c \in CA, e \in EA} ELSE {},
            IF "chord" \in Fams THEN {<<"chord", a>> : a \in 0..32} ELSE {},
            \* "ct": chord angles whose angles add up to pi (almost all the way round), embedded
            \* off-grid with the supplement nudged by nu ulps; nearly full caps
            IF "ct" \in Fams THEN {<<"ct", a>> : a \in 1..31} ELSE {} }
Next == /\ Len(t) = 2
        /\ t' \in CASE t[1] = "cap" -> {<<"cap", t[2], <<o, e>>>> : o \in CB, e \in EB}
                    [] t[1] = "chord" -> {<<"chord", t[2], b>> : b \in 0..32}
                    [] t[1] = "ct" -> {<<"ct", t[2], <<nu, off>>>> : nu \in -3..3, off \in 1..3}
F == t[1]
A == t[2]
B == t[3]
Un == Len(t) = 2
Bin == Len(t) = 3

In(c, e, p) == CapCmp(c, e, p) <= 0
Strict(c, e, p) == CapCmp(c, e, p) < 0

(***************************************************************************)
(* model-level laws                                                        *)
(***************************************************************************)
CapUnary == F = "cap" /\ Un =>
    LET c == A[1] e == A[2] k == CapComplement(c, e) IN
    /\ \A p \in Dirs :
          \* complement of the interior: exactly the points not strictly inside
          /\ (e \notin {-8, 32} => CapCmp(k.c, k.e, p) = -CapCmp(c, e, p))
          /\ (In(c, e, p) \/ In(k.c, k.e, p))                          \* together they cover everything
          /\ ~(Strict(c, e, p) /\ Strict(k.c, k.e, p))
          /\ (CapContainsPt(c, e, p) = "T" => In(c, e, p))
          /\ (CapContainsPt(c, e, p) = "F" => ~In(c, e, p))
          /\ (CapInteriorContainsPt(c, e, p) = "T" => CapContainsPt(c, e, p) = "T")
    /\ (e = -8 => \A p \in Dirs : ~In(c, e, p))
    /\ (e = 32 => \A p \in Dirs : In(c, e, p))
    /\ (e >= 0 => In(c, e, c))
    /\ \A dl \in Deltas : CapExpandedE(e, dl) >= 0 => CapExpandedE(e, dl) >= e

CapBinary == F = "cap" /\ Bin =>
    LET c == A[1] ec == A[2] o == B[1] eo == B[2] IN
    \* the angle arithmetic agrees with integer point membership on every lattice probe
    /\ (CapContainsCap(c, ec, o, eo) = "T" => \A p \in Dirs : In(o, eo, p) => In(c, ec, p))
    /\ (CapContainsCap(c, ec, o, eo) = "F" => eo >= 0)
    /\ (CapIntersects(c, ec, o, eo) = "F" => \A p \in Dirs : ~(In(c, ec, p) /\ In(o, eo, p)))
    /\ (CapInteriorIntersects(c, ec, o, eo) = "F" => \A p \in Dirs : ~(Strict(c, ec, p) /\ In(o, eo, p)))
    /\ (CapInteriorIntersects(c, ec, o, eo) = "T" => CapIntersects(c, ec, o, eo) # "F")
    /\ (CapContainsCap(c, ec, o, eo) = "T" /\ eo >= 0 => CapIntersects(c, ec, o, eo) # "F")
    /\ CapIntersects(c, ec, o, eo) = CapIntersects(o, eo, c, ec)
    /\ (\E p \in Dirs : In(c, ec, p) /\ In(o, eo, p)) => CapIntersects(c, ec, o, eo) # "F"
    /\ (\E p \in Dirs : In(o, eo, p) /\ ~In(c, ec, p)) => CapContainsCap(c, ec, o, eo) # "T"
    /\ (\E p \in Dirs : Strict(c, ec, p) /\ In(o, eo, p)) => CapInteriorIntersects(c, ec, o, eo) # "F"

\* the supplement is the least second operand whose sum is clamped to the straight angle
CTLaws == F = "ct" /\ Un =>
    /\ ChordAdd(A, ChordSupp(A)) = [k |-> "eq", e |-> 32]
    /\ ChordAdd(A, ChordSupp(A) - 1).e < 32 \/ ChordSupp(A) - 1 = 0
    /\ ChordSub(32, A).e = ChordSupp(A) \/ ChordSub(32, A).k = "open"

ChordLaws == F = "chord" /\ Bin =>
    LET a == A b == B s == ChordAdd(a, b) d == ChordSub(a, b) IN
    /\ s = ChordAdd(b, a)
    /\ s.e >= Max2(a, b) /\ s.e <= 32
    /\ d.e <= a /\ d.e >= 0
    /\ (s.k = "approx" => Ang12(s.e) = Ang12(a) + Ang12(b))
    /\ (d.k = "approx" => Ang12(d.e) = Ang12(a) - Ang12(b))
    /\ (s.k = "approx" => ChordSub(s.e, b).e = a)

(***************************************************************************)
(* cases                                                                   *)
(***************************************************************************)
CaseCapU ==
    LET c == A[1] e == A[2] IN
    [op |-> "c19capu", c |-> c, e |-> e,
     comp |-> CapComplement(c, e), ang |-> IF e = -8 THEN -1 ELSE Ang12(e),
     pts |-> [i \in 1..Len(DirSeq) |->
                LET p == DirSeq[i] IN
                [p |-> p, s |-> CapCmp(c, e, p), x |-> CapExactPt(c, p),
                 cp |-> CapContainsPt(c, e, p), ip |-> CapInteriorContainsPt(c, e, p)]],
     exp |-> [dl \in Deltas |-> CapExpandedE(e, dl)]]
CaseCapB ==
    LET c == A[1] ec == A[2] o == B[1] eo == B[2] IN
    [op |-> "c19capb", c |-> c, ec |-> ec, o |-> o, eo |-> eo,
     cc |-> CapContainsCap(c, ec, o, eo), rc |-> CapContainsCap(o, eo, c, ec),
     x |-> CapIntersects(c, ec, o, eo),
     ix |-> CapInteriorIntersects(c, ec, o, eo), clamp |-> CapClampCase(c, ec, o, eo),
     ur |-> CapUnionAng24(c, ec, o, eo), ar |-> CapAddCapAng12(c, ec, o, eo),
     pts |-> [i \in 1..Len(DirSeq) |->
                LET p == DirSeq[i] IN
                [p |-> p, sa |-> CapCmp(c, ec, p), sb |-> CapCmp(o, eo, p),
                 xa |-> CapExactPt(c, p), xb |-> CapExactPt(o, p)]]]
CaseChord == [op |-> "c19chord", a |-> A, b |-> B, add |-> ChordAdd(A, B), sub |-> ChordSub(A, B)]

Emit ==
    PrintT(<<"CASE", ToJson(
        CASE F = "cap" /\ Un -> CaseCapU [] F = "cap" /\ Bin -> CaseCapB
          [] F = "chord" /\ Un -> [op |-> "c19nop"] [] F = "chord" /\ Bin -> CaseChord
          [] F = "ct" /\ Un -> [op |-> "c19nop"]
          [] F = "ct" /\ Bin -> [op |-> "c19ct", a |-> A, supp |-> ChordSupp(A), nu |-> B[1], off |-> B[2],
                                 seed |-> CtSeed, c |-> DirSeq[1 + ((A + B[2]) % Len(DirSeq))],
                                 sum |-> ChordAdd(A, ChordSupp(A)).e])>>)
=============================================================================
