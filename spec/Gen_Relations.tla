---------------------------- MODULE Gen_Relations ----------------------------
(* C07 generators.  The states are the cases.
     INIT InitPair   NEXT NextPair    invariants PairTheorems, [PairExact], EmitPair
         pairs of polygons (1..MaxLoops loops each; 1 loop = a Loop pair), the two
         regions of a pair living on grid levels GA and GB of the fine level GF
     INIT InitForest NEXT NextForest  invariants ForestTheorems, EmitForest
         nesting forests x input orders x geometric realisations
     INIT InitTrace  NEXT NextTrace   invariant TraceLaws (see the end of the module)   *)
EXTENDS Relations, TLC, Json

CONSTANTS GF, GA, GB,          \* fine level; levels of region A and region B
          XsA, YsA, XsB, YsB,      \* candidate corner coordinates of the first (outer) loop, in cells of the own level
          HXsA, HYsA, HXsB, HYsB,  \* candidate corner coordinates of the further loops (holes, islands, second shells)
          GlueXs,                  \* extents (cells of A's level) of two-face loops on either side of the common face side; {} = none
          SpikeSides, SpikePos, SpikeLens, \* rectangles of A with a thin spike (1 fine cell wide): sides 0..3, fine positions, fine lengths; {} = none
          ThinMod, ThinRem,        \* keep the pairs whose hash is ThinRem modulo ThinMod (seeded sub-sampling)
          KindsA, KindsB,      \* subsets of 0..4 (0 rectangle, 1..4 L-shapes)
          PitchA, PitchB,      \* vertex spacings in cells of the own level (0 = corners only)
          MaxLoopsA, MaxLoopsB,\* loops per polygon (1 = plain loops)
          FacePairs,           \* set of fa*6+fb
          CheckAll,            \* TRUE: also prove probe-exactness and loop geometry on all cells (small GF)
          Codes, Reals, Scales, Subs, FBase,       \* forests: Codes = n*1000 + factorial-base code of the parent vector
          TraceFile

VARIABLE t

\* ------------------------------------------------------------ candidates ------
Cands(g, xs, ys, kinds, pitches) ==
    {FineLoop(0, g, GF, x0, y0, x1, y1, nc, IF nc = 0 THEN 0 ELSE mx, IF nc = 0 THEN 0 ELSE my, FALSE, pt) :
        x0 \in xs, x1 \in xs, y0 \in ys, y1 \in ys, nc \in kinds, mx \in xs, my \in ys, pt \in pitches}
CandsOK(S) == {l \in S : WellFormed(l, GF)}
LKey(l) == ((l.X1 * 129 + l.Y0) * 129 + l.X0) * 129 + l.Y1

\* polygons: a first loop from S, then up to two loops from H; every valid combination
\* (nested = hole / island, disjoint = further shell, touching at corners only)
PolysOf(S, H, maxLoops) ==
    LET one == {<<a>> : a \in S}
        two == IF maxLoops < 2 THEN {}
               ELSE {IF LKey(q[2]) % 2 = 0 THEN <<q[1], q[2]>> ELSE <<q[2], q[1]>> : q \in S \X H}
        three == IF maxLoops < 3 THEN {}
                 ELSE {<<q[2], q[1], q[3]>> : q \in {r \in S \X H \X H : LKey(r[2]) < LKey(r[3])}}
    IN  {P \in one \cup two \cup three : ValidPolygon(P, Probes(P, GF))}

SA == CandsOK(Cands(GA, XsA, YsA, KindsA, PitchA))
SB == CandsOK(Cands(GB, XsB, YsB, KindsB, PitchB))
HA == CandsOK(Cands(GA, HXsA, HYsA, {0}, PitchA))
HB == CandsOK(Cands(GB, HXsB, HYsB, {0}, PitchB))
\* two-face loops (see Relations!GlueVerts), written for a common side x = N / x = 0 and
\* transposed by OnFace when the first face is odd: <<half on the second face, half on the first>>
GluePolys ==
    LET n == 2 ^ GA
    IN  {<<[FineLoop(0, GA, GF, 0, y0, m, y1, 0, 0, 0, FALSE, pt) EXCEPT !.glue = 1],
           [FineLoop(0, GA, GF, n - w, y0, n, y1, 0, 0, 0, FALSE, pt) EXCEPT !.glue = 2]>> :
            m \in {x \in GlueXs : 0 < x /\ x <= n}, w \in {x \in GlueXs : 0 < x /\ x <= n},
            y0 \in YsA, y1 \in YsA, pt \in PitchA}
IsGlue(P) == P[1].glue = 1
\* rectangles with a spike (see Relations!SpikeVerts): <<rectangle, spike>>, glue = 10 + side
SpikePolys ==
    {<<[r EXCEPT !.glue = 10 + side], [SpikeRect(r, side, pos, len, 1) EXCEPT !.glue = 20 + side]>> :
        r \in {x \in SA : x.nc = 0}, side \in SpikeSides, pos \in SpikePos, len \in SpikeLens}
IsSpike(P) == P[1].glue >= 10 /\ P[1].glue < 20
Merged(P) == IsGlue(P) \/ IsSpike(P)
PolysA == PolysOf(SA, HA, MaxLoopsA) \cup {P \in GluePolys : \A k \in 1..2 : WellFormed(P[k], GF) /\ P[1].Y0 < P[1].Y1}
          \cup {P \in SpikePolys : WellFormed(P[2], GF) /\ SpikeOK(P[1], P[2], P[1].glue - 10)}
PolysB == PolysOf(SB, HB, MaxLoopsB)
PHash(P) == SumFn([k \in 1..Len(P) |-> (LKey(P[k]) + P[k].m + 7 * P[k].nc) % 10007])

\* a two-face loop "on face f" has its second half on f and its first half on f-1
OnFace(P, f) == IF IsGlue(P)
                THEN IF (f - 1) % 2 = 0 THEN <<[P[1] EXCEPT !.f = f], [P[2] EXCEPT !.f = f - 1]>>
                     ELSE <<[Transpose(P[1]) EXCEPT !.f = f], [Transpose(P[2]) EXCEPT !.f = f - 1]>>
                ELSE [k \in 1..Len(P) |-> [P[k] EXCEPT !.f = f]]

\* ------------------------------------------------------------------ pairs ------
\* a full state is <<P, Q, vertex sequences of P, of Q, the probe universe U,
\*                   the regions of <<P, ~P, Q, ~Q>> on U, <<top loop of P, of Q>>>>   (computed once)
MkPair(P, Q, fp) ==
    LET p0 == OnFace(P, fp \div 6)
        q0 == OnFace(Q, fp % 6)
        sc == p0 \o q0
        \* vertices imposed on a loop: the own vertices of every loop of the scene on the same face
        vsOn(f) == UNION {OwnPts(sc[k]) : k \in {j \in 1..Len(sc) : sc[j].f = f}}
        u == Probes(sc, GF)
        \* every loop starts at a pseudo-randomly chosen vertex
        vx(l) == LET v == Verts(l, vsOn(l.f)) IN RotateTo(v, ((LKey(l) + fp) % Len(v)) + 1)
    IN  <<p0, q0, [k \in 1..Len(p0) |-> vx(p0[k])], [k \in 1..Len(q0) |-> vx(q0[k])], u,
          <<RegionOn(u, p0), RegionOn(u, PolyComplement(p0, u)), RegionOn(u, q0), RegionOn(u, PolyComplement(q0, u))>>,
          <<TopIdx(p0, u), TopIdx(q0, u)>>,
          \* the single boundary loop of a two-face region
          IF IsGlue(p0) /\ p0[2].f \in Faces THEN GlueVerts(p0[1], Verts(p0[1], vsOn(p0[1].f)), p0[2], Verts(p0[2], vsOn(p0[2].f)), Side(GF))
          ELSE IF IsSpike(p0) THEN SpikeVerts(Verts(p0[1], vsOn(p0[1].f)), Verts(p0[2], vsOn(p0[2].f)), SpikeFeet(p0[2], p0[1].glue - 10))
          ELSE <<>> >>
\* initial states <<P, chunk>>: the work is split into 4 chunks of Q per P (parallelism)
InitPair == t \in {<<P, ch>> : P \in PolysA, ch \in 0..3}
NextPair == /\ Len(t) = 2
            /\ t' \in {MkPair(t[1], pr[1], pr[2]) :
                        pr \in {x \in PolysB \X FacePairs : /\ (PHash(t[1]) + PHash(x[1]) + x[2]) % ThinMod = ThinRem
                                                              /\ (PHash(x[1]) \div 7) % 4 = t[2]}}

FullPair == Len(t) = 8
P0 == t[1]
Q0 == t[2]
Scene == P0 \o Q0
SceneVerts == t[3] \o t[4]
U0 == t[5]
RX == <<t[6][1], t[6][2]>>     \* regions of P and of its complement
RY == <<t[6][3], t[6][4]>>     \* regions of Q and of its complement
CP0 == PolyComplement(P0, U0)
CQ0 == PolyComplement(Q0, U0)
VSetOn(f) == UNION {OwnPts(Scene[k]) : k \in {j \in 1..Len(Scene) : Scene[j].f = f}}
Range(sq) == {sq[n] : n \in 1..Len(sq)}

ValidPair ==
    /\ \A k \in 1..Len(SceneVerts) : 4 <= Len(SceneVerts[k]) /\ Len(SceneVerts[k]) <= 250
    \* corners on the common edge of two faces are not bit-identical: keep one region off the edge
    /\ (P0[1].f # Q0[1].f => (\A k \in 1..Len(P0) : ~TouchesFaceEdge(P0[k], GF))
                             \/ (\A k \in 1..Len(Q0) : ~TouchesFaceEdge(Q0[k], GF)))
    \* a two-face loop needs a preceding face; the other region stays off every face side
    /\ (IsGlue(P0) => /\ P0[2].f \in Faces /\ Len(t[8]) <= 250
                      /\ \A k \in 1..Len(Q0) : ~TouchesFaceEdge(Q0[k], GF))

\* model theorems, checked on every generated pair
PairTheorems ==
    FullPair /\ ValidPair =>
        /\ LawsHold(U0, RX[1], RY[1], RX[2], RY[2], PolysTouch(P0, Q0))
        \* no vertex of a loop lies on another loop's boundary without being its vertex
        /\ \A i, j \in 1..Len(Scene) :
              Scene[i].f = Scene[j].f /\ i # j =>
                  (Range(SceneVerts[i]) \cap BoundaryPts(Scene[j])) \subseteq Range(SceneVerts[j])
        /\ \A k \in 1..Len(Scene) : WellFormed(Scene[k], GF)
        \* the boundary of a two-face region: every vertex of the two halves except those strictly
        \* inside the common side, each once
        \* the boundary of a rectangle with a spike: the vertices of both parts except those strictly
        \* between the spike's feet, each once
        /\ (IsSpike(P0) =>
              LET g == t[8]
                  sp == P0[2]
                  between(p) == IF P0[1].glue - 10 \in {0, 2} THEN p[1] = (IF P0[1].glue = 10 THEN sp.X0 ELSE sp.X1) /\ sp.Y0 < p[2] /\ p[2] < sp.Y1
                                ELSE p[2] = (IF P0[1].glue = 11 THEN sp.Y0 ELSE sp.Y1) /\ sp.X0 < p[1] /\ p[1] < sp.X1
              IN  /\ Cardinality(Range(g)) = Len(g) /\ Len(g) <= 250
                  /\ Range(g) = {p \in Range(SceneVerts[1]) \cup Range(SceneVerts[2]) : ~between(p)})
        /\ (IsGlue(P0) =>
              LET g == t[8]
                  c(k) == IF k = 1 THEN 0 ELSE Side(GF)      \* coordinate of the common side in half k
                  inner(k, p) == IF P0[2].f % 2 = 0 THEN p[1] = c(k) /\ P0[k].Y0 < p[2] /\ p[2] < P0[k].Y1
                                 ELSE p[2] = c(k) /\ P0[k].X0 < p[1] /\ p[1] < P0[k].X1
                  half(k) == {<<P0[k].f, p[1], p[2]>> : p \in {q \in Range(SceneVerts[k]) : ~inner(k, q)}}
                  onSide(p) == IF P0[2].f % 2 = 0 THEN p[2] = Side(GF) ELSE p[3] = Side(GF)
              IN  /\ Cardinality(Range(g)) = Len(g)
                  /\ Range(g) = half(1) \cup {p \in half(2) : ~onSide(p)})

\* only for small GF: the probe universe decides the relations exactly, and the corner
\* sequences bound exactly the cell sets
PairExact ==
    FullPair /\ ValidPair /\ CheckAll =>
        LET W == AllCells(GF) XS == <<P0, CP0>> YS == <<Q0, CQ0>>
        IN  /\ \A s \in 1..2, u \in 1..2 :
                  /\ Subset(RY[u], RX[s]) = ContainsOn(W, XS[s], YS[u])
                  /\ Subset(RX[s], RY[u]) = ContainsOn(W, YS[u], XS[s])
                  /\ Meets(RX[s], RY[u]) = IntersectsOn(W, XS[s], YS[u])
            /\ LawsHold(W, RegionOn(W, P0), RegionOn(W, Q0), RegionOn(W, CP0), RegionOn(W, CQ0), PolysTouch(P0, Q0))
            /\ \A k \in 1..Len(Scene) : LoopGeometryOK(Scene[k], GF)
            \* a complemented loop is the same boundary walked backwards; vertices are distinct
            /\ \A k \in 1..Len(Scene) : /\ Verts(Complement(Scene[k]), VSetOn(Scene[k].f)) = Reverse(Verts(Scene[k], VSetOn(Scene[k].f)))
                                        /\ IsRotationOf(SceneVerts[k], Verts(Scene[k], VSetOn(Scene[k].f)))
                                        /\ Cardinality(Range(SceneVerts[k])) = Len(SceneVerts[k])
            /\ \A k \in 1..Len(P0) : DepthIn(P0, k, U0) = DepthIn(P0, k, W)
            /\ \A k \in 1..Len(Q0) : DepthIn(Q0, k, U0) = DepthIn(Q0, k, W)

EmitPair ==
    IF FullPair /\ ValidPair
    THEN PrintT(<<"CASE", ToJson(
               [op |-> "c07pair", fa |-> P0[1].f, fb |-> Q0[1].f, gf |-> GF, ga |-> GA, gb |-> GB,
                a |-> [loops |-> IF Merged(P0) THEN <<t[8]>> ELSE t[3], top |-> t[7][1] - 1],
                twoface |-> IsGlue(P0), spike |-> IsSpike(P0),
                b |-> [loops |-> t[4], top |-> t[7][2] - 1],
                touch |-> PolysTouch(P0, Q0),
                want |-> [c |-> [s \in 1..2 |-> [u \in 1..2 |-> Subset(RY[u], RX[s])]],
                          d |-> [s \in 1..2 |-> [u \in 1..2 |-> Subset(RX[s], RY[u])]],
                          i |-> [s \in 1..2 |-> [u \in 1..2 |-> Meets(RX[s], RY[u])]]]])>>)
    ELSE TRUE

\* ---------------------------------------------------------------- forests ------
\* a full state is <<code, input order, realisation, scale exponent, subdivided?, the loops>>
ForestLoops(code, perm, real, sc, sub) ==
    LET n == code \div 1000
        p == ForestOf(n, code % 1000)
        face == (code + perm[1]) % 6
    IN  [i \in 1..n |-> LET r == FRect(p, i, real, FBase, FBase, FBase + 10)
                        IN  FineLoop(face, 4, 4 + sc, r[1], r[2], r[3], r[4], 0, 0, 0, FALSE, IF sub THEN 1 ELSE 0)]
InitForest == t \in {<<code>> : code \in Codes}
NextForest == /\ Len(t) = 1
              /\ t' \in {<<t[1], perm, real, sc, sub, ForestLoops(t[1], perm, real, sc, sub)>> :
                            perm \in Permutations(1..(t[1] \div 1000)), real \in Reals, sc \in Scales, sub \in Subs}
FullForest == Len(t) = 6
NN == t[1] \div 1000
FP == ForestOf(NN, t[1] % 1000)
FPerm == t[2]
FGF == 4 + t[4]
FFace == (t[1] + t[2][1]) % 6
\* subdivided: a vertex at every point of the fine grid (m = 1 fine cell)
FPoly == [i \in 1..NN |-> [t[6][i] EXCEPT !.m = IF t[5] THEN 1 ELSE 0]]
FU == Probes(FPoly, FGF)
FVSet == UNION {OwnPts(FPoly[k]) : k \in 1..NN}
FPos(j) == CHOOSE k \in 1..NN : FPerm[k] = j

ForestTheorems ==
    FullForest =>
        LET poly == FPoly
            u == Probes(poly, FGF)
            reg == LoopRegions(poly, u)
            enc == [i \in 1..NN |-> EnclosingIn(reg, i)]      \* the loops enclosing loop i
        IN  /\ \A i \in 1..NN : WellFormed(poly[i], FGF)
            /\ ValidPolygon(poly, u)
            \* geometry realises the forest: j encloses i exactly when j is a proper ancestor of i,
            \* hence depth = number of enclosing loops and "hole" = that number is odd
            /\ \A i, j \in 1..NN : i # j => (j \in enc[i] <=> i \in Desc(FP, j))
            /\ \A i \in 1..NN : Cardinality(enc[i]) = WantDepth(FP, i)
            /\ \A i \in 1..NN : WantHole(FP, i) <=> (Cardinality(enc[i]) % 2 = 1)
            \* the witness cell of a loop (its lower-left cell) is inside it and inside none of its descendants
            /\ \A i \in 1..NN : LET w == <<FFace, poly[i].X0, poly[i].Y0>>
                                IN  LoopIn(poly[i], w) /\ \A j \in Desc(FP, i) : ~LoopIn(poly[j], w)
            \* reassembly: the induced forest of every selection is what the geometry of the selected loops says
            /\ \A k \in 1..Len(ReSelections(FP)) :
                  LET S == ReSelections(FP)[k]
                  IN  /\ \A i \in S : /\ ReDepth(FP, S, i) = Cardinality(enc[i] \cap S)
                                       /\ (ReParent(FP, S, i) = 0) = (enc[i] \cap S = {})
                                       /\ (ReParent(FP, S, i) # 0 => (enc[i] \cap S) \ {ReParent(FP, S, i)} = enc[ReParent(FP, S, i)] \cap S)
                      /\ \A j \in 1..NN : ReInside(FP, S, j) =
                              (Cardinality({i \in S : LoopIn(poly[i], <<FFace, poly[j].X0, poly[j].Y0>>)}) % 2 = 1)

EmitForest ==
    IF FullForest
    THEN PrintT(<<"CASE", ToJson(
           [op |-> "c07forest", f |-> FFace, gf |-> FGF, real |-> t[3], n |-> NN, code |-> t[1] % 1000,
            \* a loop starts one vertex before one of its corners, so that Vertex(1) - the probe of
            \* ContainsNested - is a corner: in the "diag" realisation often a vertex shared with a sibling
            loops |-> [k \in 1..NN |-> LET i == FPerm[k]
                                       IN  SecondIs(Verts(FPoly[i], FVSet), Corners(FPoly[i])[((i + t[1] + FPerm[1]) % 4) + 1])],
            want |-> [k \in 1..NN |-> LET i == FPerm[k]
                                      IN  [depth |-> WantDepth(FP, i), hole |-> WantHole(FP, i),
                                           parent |-> IF FP[i] = 0 THEN -1 ELSE FPos(FP[i]) - 1,
                                           ndesc |-> Cardinality(Desc(FP, i)),
                                           wit |-> <<FPoly[i].X0, FPoly[i].Y0>>,
                                           inside |-> PolyIn(FPoly, <<FFace, FPoly[i].X0, FPoly[i].Y0>>)]],
            \* reassembly steps on the same loop objects: selected input positions (0-based, input order kept),
            \* the induced forest, and for every loop of the scene whether its witness cell is inside
            re |-> [s \in 1..Len(ReSelections(FP)) |->
                      LET S == ReSelections(FP)[s]
                          sel == SelectSeq([k \in 1..NN |-> k], LAMBDA k : FPerm[k] \in S)     \* input positions
                      IN  [sel |-> [m \in 1..Len(sel) |-> sel[m] - 1],
                           want |-> [m \in 1..Len(sel) |-> LET i == FPerm[sel[m]]
                                                          IN  [depth |-> ReDepth(FP, S, i), hole |-> ReDepth(FP, S, i) % 2 = 1,
                                                               parent |-> IF ReParent(FP, S, i) = 0 THEN -1 ELSE FPos(ReParent(FP, S, i)) - 1,
                                                               ndesc |-> ReDesc(FP, S, i)]],
                           inside |-> [k \in 1..NN |-> ReInside(FP, S, FPerm[k])]]]])>>)
    ELSE TRUE

\* ------------------------------------------------------------------ trace ------
(* Direction B: the harness relates random large loops (regular loops, also inverted) and
   logs the recorded answers; TLC validates every event against the laws of the property.
   An event holds the recorded booleans described below, see TraceLawTable.               *)
Events == IF TraceFile = "" THEN <<>> ELSE ndJsonDeserialize(TraceFile)
InitTrace == t = <<0>>
NextTrace == /\ t[1] < Len(Events)
             /\ t' = <<t[1] + 1>>
\* answers logged for the loops X, Y and their inverses nX, nY:
\*   c[s][u] = X_s.Contains(Y_u), d[s][u] = Y_u.Contains(X_s), i[s][u] = X_s.Intersects(Y_u),
\*   j[s][u] = Y_u.Intersects(X_s)  (index 1 = the loop, 2 = its inverse); selfc/selfi for the four loops;
\*   cert = "nested" | "disjoint" | "" : relation of X and Y known by construction with a wide margin
TraceLawTable(e) ==
    [sym   |-> \A s \in 1..2, u \in 1..2 : e.i[s][u] = e.j[s][u],
     \* X meets Y iff the complement of X does not contain Y (both argument orders)
     meets |-> \A s \in 1..2, u \in 1..2 : e.i[s][u] = ~e.c[3 - s][u] /\ e.j[s][u] = ~e.d[s][3 - u],
     \* X contains Y iff the complement of Y contains the complement of X
     dual  |-> \A s \in 1..2, u \in 1..2 : e.c[s][u] = e.d[3 - s][3 - u],
     self  |-> \A k \in 1..4 : e.selfc[k] /\ e.selfi[k],
     \* single-loop polygons answer like loops
     poly1 |-> e.pc = e.c /\ e.pd = e.d /\ e.pi = e.i,
     certNested   |-> (e.cert = "nested" => e.c[1][1] /\ e.i[1][1] /\ ~e.i[2][1]),
     \* a loop well inside another one becomes its hole when a polygon is assembled from the two
     certNestedHole |-> (e.cert = "nested" => e.hole),
     certDisjoint |-> (e.cert = "disjoint" => ~e.i[1][1] /\ ~e.c[1][1] /\ ~e.d[1][1] /\ e.c[2][1])]
TraceFailing(e) == {n \in DOMAIN TraceLawTable(e) : ~TraceLawTable(e)[n]}
TraceLaws ==
    IF t[1] >= 1 /\ t[1] <= Len(Events) /\ TraceFailing(Events[t[1]]) # {}
    THEN PrintT(<<"BADEVENT", ToJson([line |-> t[1], seed |-> Events[t[1]].seed, k |-> Events[t[1]].k,
                                      span |-> Events[t[1]].span, laws |-> TraceFailing(Events[t[1]])])>>)
    ELSE TRUE
=============================================================================
