-------------------------- MODULE Trace_IndexBook ---------------------------
(***************************************************************************)
(* Trace validation for C13 (direction B): the index updates recorded from *)
(* real executions (s2/verif_hooks_trace.go: two observations per update,  *)
(* taken under the index mutex) must be a behaviour of IndexBook.  The     *)
(* mutations between two updates (Add, Remove, Reset) are not logged; the  *)
(* trace specification takes them as silent steps of IndexBook, in one     *)
(* canonical order determined by the next observation, so every state has  *)
(* at most one successor and validation is linear.  A line that no action  *)
(* explains leaves TLC without a successor: with deadlock checking on it   *)
(* reports the position l.  Events are grouped by index; a change of the   *)
(* index number resets the state.                                          *)
(***************************************************************************)
EXTENDS IndexBook, Sequences, TLC, Json

CONSTANT TraceFile
Trace == ndJsonDeserialize(TraceFile)

VARIABLES l, cur, gap     \* gap: silent steps taken since the last observation
tvars == <<bvars, l, cur, gap>>

ToSet(s) == {s[i] : i \in 1..Len(s)}
E == Trace[l]
Held(e) == ToSet(e.live) \cup ToSet(e.hid)

Matches(e) ==
    /\ next = e.next /\ pend = e.pend /\ live = ToSet(e.live) /\ hid = ToSet(e.hid)
    /\ idx = ToSet(e.idx) /\ rem = e.nrem /\ fresh = e.fresh

TraceInit == BInit /\ fresh = TRUE /\ l = 1 /\ cur = 0 /\ gap = 0

TraceReset ==
    /\ l <= Len(Trace) /\ E.ix # cur
    /\ cur' = E.ix /\ gap' = 0
    /\ next' = 0 /\ pend' = 0 /\ live' = {} /\ hid' = {} /\ idx' = {} /\ rem' = 0
    \* an index observed empty and stale started as the zero value of the struct
    /\ fresh' = ~(E.ev = "begin" /\ E.next = 0 /\ ~E.fresh) /\ applying' = FALSE
    /\ UNCHANGED l

InGap == l <= Len(Trace) /\ E.ix = cur /\ E.ev = "begin" /\ ~applying /\ ~Matches(E)

\* 1. Reset, if the observation cannot be reached without one (it erases whatever came before)
NeedReset == E.next < next \/ E.pend < pend
SilentReset == InGap /\ NeedReset /\ gap = 0 /\ Reset /\ gap' = 1 /\ UNCHANGED <<l, cur>>
\* 2. the additions, in id order; an id that is not held at the observation was added and removed again
SilentAdd ==
    /\ InGap /\ ~(NeedReset /\ gap = 0) /\ next < E.next
    /\ IF next \in Held(E)
       THEN Add(next \in ToSet(E.live))
       ELSE /\ next' = next + 1 /\ fresh' = FALSE
            /\ UNCHANGED <<pend, live, hid, idx, rem, applying>>
    /\ gap' = gap + 1 /\ UNCHANGED <<l, cur>>
\* 3. the removals, smallest id first
Gone == (live \cup hid) \ Held(E)
SilentRemove ==
    /\ InGap /\ ~(NeedReset /\ gap = 0) /\ next = E.next /\ Gone # {}
    /\ Remove(CHOOSE i \in Gone : \A j \in Gone : i <= j)
    /\ gap' = gap + 1 /\ UNCHANGED <<l, cur>>

TraceBegin ==
    /\ l <= Len(Trace) /\ E.ix = cur /\ E.ev = "begin" /\ Matches(E)
    /\ ApplyBegin
    /\ l' = l + 1 /\ gap' = 0 /\ UNCHANGED cur

TraceEnd ==
    /\ l <= Len(Trace) /\ E.ix = cur /\ E.ev = "end"
    /\ ApplyEnd
    /\ next' = E.next /\ pend' = E.pend /\ live' = ToSet(E.live) /\ hid' = ToSet(E.hid)
    /\ idx' = ToSet(E.idx) /\ rem' = E.nrem /\ fresh' = E.fresh
    /\ l' = l + 1 /\ gap' = 0 /\ UNCHANGED cur

TraceDone == l = Len(Trace) + 1 /\ UNCHANGED tvars

TraceNext == TraceReset \/ SilentReset \/ SilentAdd \/ SilentRemove \/ TraceBegin \/ TraceEnd \/ TraceDone
=============================================================================
