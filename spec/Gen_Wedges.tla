----------------------------- MODULE Gen_Wedges -----------------------------
(* Extension of C07 (component A): every 5-tuple (a0, o, a2, b0, b2) with the shared vertex o
   taken from OIdx and the four arms from SubIdx (indices into the sorted lattice).  One state =
   one wedge A = (a0, o, a2), given by the positions of its arms in the CCW sequence around o;
   the state's case carries the expected answers for every wedge B. *)
EXTENDS Wedges, Json

CONSTANT OIdx     \* indices of the shared vertices (work partition)
CONSTANT SubIdx   \* indices of the arm end points
PtSeq == SetToSortSeq(Pts, LexLess)
Sub == {PtSeq[i] : i \in SubIdx \cap (1..Len(PtSeq))}
OSub == {PtSeq[i] : i \in OIdx \cap (1..Len(PtSeq))}
OSeq == SetToSortSeq(OSub, LexLess)
\* the arms around each shared vertex in CCW order (computed once)
Ccws == FoldLeft(LAMBDA acc, o : Append(acc, CcwSeq(Sub \ {o}, o)), <<>>, OSeq)
\* caches of Wedges!WedgeRobust / ValidWedges per shared vertex: NZ[oi][i][j] <=> Det(o, s[i], s[j]) # 0
Tab(n, F(_)) == FoldLeft(LAMBDA acc, i : Append(acc, F(i)), <<>>, [i \in 1..n |-> i])
NZ == Tab(Len(OSeq), LAMBDA oi : Tab(Len(Ccws[oi]), LAMBDA i : Tab(Len(Ccws[oi]), LAMBDA j : Det(OSeq[oi], Ccws[oi][i], Ccws[oi][j]) # 0)))
\* the piece sets of every wedge around each shared vertex
PT == Tab(Len(OSeq), LAMBDA oi : Tab(Len(Ccws[oi]), LAMBDA i : Tab(Len(Ccws[oi]), LAMBDA j :
            IF i = j THEN {} ELSE Pieces(i, j, Len(Ccws[oi])))))
OK == Tab(Len(OSeq), LAMBDA oi : Tab(Len(Ccws[oi]), LAMBDA i : ~Parallel(OSeq[oi], Ccws[oi][i])))

VARIABLE t
Init == t \in {<<i>> : i \in 1..Len(OSeq)}
Next == /\ Len(t) < 3
        /\ t' \in {Append(t, i) : i \in 1..Len(Ccws[t[1]])}

Full == Len(t) = 3
O == OSeq[t[1]]
S == Ccws[t[1]]
NS == Len(Ccws[t[1]])
I0 == t[2]
I2 == t[3]

\* ---- model theorems ---------------------------------------------------------
\* the perturbed orientation makes the rays around o a cyclic order, and S lists them in that order
\* (every triple of positions is covered by the states of length 2)
SeqIsCyclicOrder ==
    Len(t) = 2 => \A j \in 1..NS, k \in 1..NS : SeqIsCyclicOrderAt(S, O, t[2], j, k)
Laws ==
    (Full /\ I0 # I2) =>
        \A SA \in {PT[t[1]][I0][I2]}, SAc \in {PT[t[1]][I2][I0]} :
            /\ WedgeLawsA(SA, SAc, I0, I2, NS)
            /\ \A j0 \in 1..NS, j2 \in 1..NS :
                    j0 # j2 => \A SB \in {PT[t[1]][j0][j2]} : WedgeLawsOn(SA, SB, SAc, I0, I2, j0, j2, NS)
Reflexive == (Full /\ I0 # I2) => WedgeRelationPos(I0, I2, I0, I2, NS) = WEquals /\ PT[t[1]][I0][I2] = Pieces(I0, I2, NS)
\* the point-level operators of Wedges.tla are the position-level ones (spot check: B = reversed A)
PointLevel == (Full /\ I0 # I2) =>
                 /\ WedgeRelation(S[I0], O, S[I2], S[I2], S[I0], {S[I0], S[I2]}) = WIsDisjoint
                 /\ ~WedgeIntersects(S[I0], O, S[I2], S[I2], S[I0], {S[I0], S[I2]})

\* ---- expected answers ---------------------------------------------------------
\* rel + 8*contains + 16*intersects + 32*robust + 64*valid + 128*degenerate
NZP(i, j) == i = j \/ NZ[t[1]][i][j]
RobustPos(j0, j2) == NZP(I0, I2) /\ NZP(I0, j0) /\ NZP(I0, j2) /\ NZP(I2, j0) /\ NZP(I2, j2) /\ NZP(j0, j2)
ValidPos(j0, j2) == OK[t[1]][I0] /\ OK[t[1]][I2] /\ OK[t[1]][j0] /\ OK[t[1]][j2]
Flags(j0, j2) == (IF RobustPos(j0, j2) THEN 32 ELSE 0) + (IF ValidPos(j0, j2) THEN 64 ELSE 0)
\* the tables are the definitions of Wedges.tla (checked on the wedges B that share an arm with A)
TablesAreDefinitions ==
    Full => \A j \in 1..NS : /\ RobustPos(I0, j) <=> WedgeRobust(S[I0], O, S[I2], S[I0], S[j])
                             /\ ValidPos(I0, j) <=> ValidWedges(S[I0], O, S[I2], S[I0], S[j])
CodeOn(SA, j0, j2) ==
    IF I0 = I2 \/ j0 = j2 THEN 128 + Flags(j0, j2)
    ELSE (CHOOSE c \in {RelOfSets(SA, SB) + (IF SB \subseteq SA THEN 8 ELSE 0) + (IF SA \cap SB # {} THEN 16 ELSE 0)
                            : SB \in {PT[t[1]][j0][j2]}} : TRUE)
         + Flags(j0, j2)

Emit ==
    IF Full
    THEN \A SA \in {PT[t[1]][I0][I2]} :
            PrintT(<<"CASE", ToJson([op |-> "wedge", o |-> O, i0 |-> I0, i2 |-> I2, pts |-> S,
                                     res |-> [k \in 1..(NS * NS) |-> CodeOn(SA, ((k - 1) \div NS) + 1, ((k - 1) % NS) + 1)]])>>)
    ELSE TRUE
=============================================================================
