--------------------------- MODULE Trace_Intersect --------------------------
(***************************************************************************)
(* C16, direction B: one recorded event per crossing pair of float edges.  *)
(* The event carries what the library itself reports (results of the 8     *)
(* argument permutations, IsUnit, dot products, distances, the accept flag *)
(* of intersectionStable) as order-preserving keys / booleans.  The        *)
(* specification states the relations that must hold between them; one     *)
(* state per event, every violated relation is printed as a REJ line.      *)
(*                                                                         *)
(* Event fields (all events carry all fields):                             *)
(*   ev    "X" (generic crossing) | "COL" (exactly collinear overlapping)  *)
(*   perm  8 points (3 keys each): Intersection under the 8 permutations   *)
(*   unit  result.IsUnit()                                                 *)
(*   da,db result . (a0+a1), result . (b0+b1)                              *)
(*   ha,hb -(intersectionError + 4 eps) * |a0+a1| resp. |b0+b1|            *)
(*   eok   on-edge relation applicable; ea,eb = UpdateMinDistance(result,  *)
(*         (for edges below 1e-140 rad, where UpdateMinDistance's squared  *)
(*         cross product underflows: distance to the nearer endpoint; the  *)
(*         tolerance is ABSOLUTE in every case, never relative to an edge) *)
(*         edge); etol = chord(intersectionError) expanded by the          *)
(*         documented minUpdateDistanceMaxError                            *)
(*   st    intersectionStable accepted; sx = stableAngle(stable, exact);   *)
(*         stol = intersectionError + 2 dblError                           *)
(*   res   COL: index 1..4 of the endpoint the result is bit-identical to  *)
(*   inarc COL: which endpoints lie strictly inside the other edge (by     *)
(*         construction of the input); rank: lexicographic ranks           *)
(***************************************************************************)
EXTENDS Numeric, TLC, Json

CONSTANT TraceFile
Trace == ndJsonDeserialize(TraceFile)

\* ---- the relations --------------------------------------------------------
OrderIndependent(e) == \A i \in 2..8 : PEq(e.perm[1], e.perm[i])
UnitLength(e) == e.unit
\* n2 = squared length of the result; n2lo, n2hi = 1 -+ 5 dblEpsilon (normalised points are
\* documented to be within 2 dblEpsilon of unit length: 4 on the square, 1 for computing it)
UnitTight(e) == FBetween(e.n2lo, e.n2, e.n2hi)
\* pa, pb = |sin| of the angle between the result and the EXACT plane of each edge (exact
\* cross/dot products); ptol = intersectionError: the exact intersection lies in both planes
OnBothPlanes(e) == FLeq(e.pa, e.ptol) /\ FLeq(e.pb, e.ptol)
\* X lies on both edges, edges are shorter than 180 degrees => X.(a0+a1) >= 0 up to the error of X
Hemisphere(e) == FLeq(e.ha, e.da) /\ FLeq(e.hb, e.db)
OnBothEdges(e) == e.eok => (FLeq(e.ea, e.etol) /\ FLeq(e.eb, e.etol))
StableMeetsBound(e) == e.st => FLeq(e.sx, e.stol)
\* intersectionExact: "Of those two [endpoints inside the other edge] we return the one that
\* is lexicographically smallest"
CollinearEndpoint(e) ==
    /\ e.res \in 1..4
    /\ e.inarc[e.res]
    /\ \A j \in 1..4 : e.inarc[j] => e.rank[e.res] <= e.rank[j]

Violated(e) ==
    IF e.panic # "" THEN {"panic"}
    ELSE
      (IF OrderIndependent(e) THEN {} ELSE {"order"})
      \cup (IF UnitLength(e) THEN {} ELSE {"unit"})
      \cup (IF UnitTight(e) THEN {} ELSE {"unit-tight"})
      \cup (IF e.ev = "X" /\ ~OnBothPlanes(e) THEN {"on-planes"} ELSE {})
      \cup (IF Hemisphere(e) THEN {} ELSE {"hemisphere"})
      \cup (IF e.ev = "X" /\ ~OnBothEdges(e) THEN {"on-edge"} ELSE {})
      \cup (IF e.ev = "X" /\ ~StableMeetsBound(e) THEN {"stable-vs-exact"} ELSE {})
      \cup (IF e.ev = "COL" /\ ~CollinearEndpoint(e) THEN {"collinear-endpoint"} ELSE {})

\* ---- one state per event ----------------------------------------------------
VARIABLE l
Init == l = 1
Next == l < Len(Trace) /\ l' = l + 1

Emit ==
    IF l <= Len(Trace) /\ Violated(Trace[l]) # {}
    THEN PrintT(<<"REJ", ToJson([l |-> l, tr |-> Trace[l].tr, cls |-> Trace[l].cls, rel |-> Violated(Trace[l])])>>)
    ELSE TRUE
=============================================================================
