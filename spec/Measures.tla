------------------------------ MODULE Measures ------------------------------
(***************************************************************************)
(* C18: area, curvature and centroid are consistent with containment and   *)
(* orientation.                                                            *)
(*                                                                         *)
(* What is decided here:                                                   *)
(*  - exact clauses as identities of float keys: the turning angle is      *)
(*    unchanged by every rotation of the vertex order and negated by       *)
(*    inversion; the canonical vertex sequence is the same for every       *)
(*    rotation and for the inverted loop; polygon area / centroid equal    *)
(*    the signed sums over its loops;                                      *)
(*  - classification clauses by model certificates: a W2 rectangle of      *)
(*    cells of one face is smaller than a hemisphere (normalized, positive *)
(*    turning angle, area below 2*pi), its complement is not; a W1         *)
(*    triangle with positive determinant likewise; shells have depth 0 and *)
(*    holes depth 1;                                                       *)
(*  - tolerance clauses as order relations between floats logged by the    *)
(*    harness: a value lies in [lo, hi] where lo/hi = expected -/+ the     *)
(*    documented error, added in Go with float64 arithmetic.               *)
(* NOT decided: independence of the triangulation within the documented    *)
(* error for arbitrary loops (real arithmetic).                            *)
(***************************************************************************)
EXTENDS Bounds

Within(x, lo, hi) == FLeq(lo, x) /\ FLeq(x, hi)
AllEq(seq, x) == \A k \in 1..Len(seq) : seq[k] = x /\ IsNum(seq[k])

\* a rectangle of cells of one face (levels >= 0) minus holes covers less than the face: 4*pi/6
SmallW2(w2) == Len(w2) >= 1

\* expected hole flags of a chain of n loops each nested in the previous one: shell, hole, shell ...
DepthsOK(isHole, n) == /\ Len(isHole) = n
                       /\ \A k \in 1..n : isHole[k] = (k % 2 = 0)

\* lattice triangle: counter-clockwise and smaller than a hemisphere
SmallTri(tri) == Det(tri[1], tri[2], tri[3]) > 0

\* a, b, c exactly on one great circle, b strictly between a and c, span below 180 degrees
CollinearBetween(a, b, c) ==
    /\ Det(a, b, c) = 0
    /\ ~Parallel(a, b) /\ ~Parallel(b, c) /\ ~Parallel(a, c)
    /\ Dot(Cross(a, b), Cross(b, c)) > 0
    /\ Dot(Cross(a, b), Cross(a, c)) > 0
=============================================================================
