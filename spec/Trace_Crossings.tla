--------------------------- MODULE Trace_Crossings --------------------------
(* C03, trace direction: crossing answers recorded from the real code on      *)
(* adversarial unit-length float inputs (shared vertices, points just beyond  *)
(* an endpoint, finely sampled great circles, nearly collinear quadruples).   *)
(* No exact oracle exists here; the specification demands the laws of the     *)
(* property: 'maybe' exactly when an endpoint is shared, symmetry under       *)
(* reversal and swap, the crosser object equals the stateless function in     *)
(* any call order, and the exactly-one rule at a shared vertex.               *)
EXTENDS Integers, Sequences, TLC, Json

CONSTANT TraceFile
Trace == ndJsonDeserialize(TraceFile)

VARIABLE l
Init == l = 1
Next == l <= Len(Trace) /\ l' = l + 1
E == Trace[l]
IsQuad == l <= Len(Trace) /\ E.ev = "quad"
IsChain == l <= Len(Trace) /\ E.ev = "chain"

MaybeIffShared == IsQuad => ((E.sign = "MAYBE") <=> E.shared)
ReverseAB == IsQuad => E.revab = E.sign
ReverseCD == IsQuad => E.revcd = E.sign
SwapEdges == IsQuad => E.swap = E.sign
CrosserAgrees == IsQuad => E.crosser = E.sign /\ E.eovcCrosser = E.eovc
EOVCConsistent ==
    IsQuad => /\ (E.sign = "CROSS" => E.eovc)
              /\ (E.sign = "NO" => ~E.eovc)
              /\ (E.sign = "MAYBE" => E.eovc = E.vcab)
ExactlyOne == IsQuad /\ E.nshared = 1 /\ ~E.degenerate => E.vcab # E.vccd
VCSymmetric == IsQuad /\ E.shared => E.vcab = E.vcabRev

\* a chain step: the reply of one long-lived crosser equals the stateless answer
ChainAgrees == IsChain => E.reply = E.stateless
ChainStateSound == IsChain => E.acb \in {0, E.acbExact}
=============================================================================
