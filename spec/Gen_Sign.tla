------------------------------ MODULE Gen_Sign ------------------------------
(* C02: orientation predicate on the lattice.  One state per ordered triple *)
(* of the chosen sub-lattice; model theorems are invariants over all of     *)
(* them; every state is emitted as a replay case for the real RobustSign.   *)
EXTENDS Exact, Json

CONSTANT SubIdx      \* indices (into the lexicographically sorted lattice) of the points used
CONSTANT EmitAll     \* TRUE: emit every triple, FALSE: only degenerate ones and 1 in 7 of the others

PtSeq == SetToSortSeq(Pts, LexLess)
Sub == {PtSeq[i] : i \in SubIdx \cap (1..Len(PtSeq))}

VARIABLE t
vars == <<t>>

Init == t \in {<<a>> : a \in Sub}
Next == /\ Len(t) = 1
        /\ t' \in {<<t[1], b, c>> : b \in Sub, c \in Sub}

Full == Len(t) = 3
A == t[1]
B == t[2]
C == t[3]

\* ---- model theorems (checked in every state) ------------------------------
TableEqualsSoS ==
    Full /\ A # B /\ B # C /\ A # C /\ Det(A, B, C) = 0 /\ LexLess(A, B) /\ LexLess(B, C)
        => TableSign(A, B, C) = SoSSignSorted(A, B, C)
Rotation == Full => RobustSign(A, B, C) = RobustSign(B, C, A)
AntiSym == Full => RobustSign(A, B, C) = -RobustSign(C, B, A)
ZeroIffEqual == Full => ((RobustSign(A, B, C) = 0) <=> (A = B \/ B = C \/ A = C))
SemanticEqualsOracle == Full => RobustSign(A, B, C) = RobustSignSemantic(A, B, C)
DetSign == Full /\ Det(A, B, C) # 0 => RobustSign(A, B, C) = Sgn(Det(A, B, C))

Hash == (A[1] * 7 + A[2] * 3 + A[3] + B[1] * 5 + B[2] * 11 + B[3] * 13 + C[1] * 17 + C[2] * 19 + C[3] * 23) % 7
Emit ==
    IF Full /\ (EmitAll \/ Det(A, B, C) = 0 \/ Hash = 0)
    THEN PrintT(<<"CASE", ToJson([op |-> "sign", a |-> A, b |-> B, c |-> C,
                                  det |-> Det(A, B, C), want |-> RobustSign(A, B, C)])>>)
    ELSE TRUE
=============================================================================
