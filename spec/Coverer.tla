------------------------------ MODULE Coverer ------------------------------
(***************************************************************************)
(* C05: what RegionCoverer promises, stated on leaf sets (world W3).       *)
(*                                                                         *)
(* A cell is <<r, l, k>>: root r (a cube face, or an anchor cell of the    *)
(* deep embedding), level l below the root and the number k in 0..4^l-1    *)
(* whose l base-4 digits are the child positions of the path.  This is the *)
(* <<face, path>> form of Cells.tla with the path written as a number, so  *)
(* that leaf ranges are integer intervals.  A leaf of depth L is the       *)
(* integer r*4^L + k.  A region is a set S of depth-D leaves.  A cell      *)
(* union is a sequence of cells; its meaning is the set of leaves (of any  *)
(* sufficiently large depth) below its cells.                              *)
(*                                                                         *)
(* Nothing here describes the algorithm of regioncoverer.go; only the      *)
(* documented postconditions of Covering, InteriorCovering, FastCovering,  *)
(* CellUnion, InteriorCellUnion, CellUnion.Denormalize and IsCanonical.    *)
(* Coverage is *always* decided on leaf sets at a depth that is at least   *)
(* the deepest level involved: with LevelMod > 1 a region cell is          *)
(* legitimately covered by its 16 or 64 descendants.                       *)
(***************************************************************************)
EXTENDS Integers, Sequences, FiniteSets, FiniteSetsExt, SequencesExt, TLC

P4(n) == 4 ^ n
Max2(a, b) == IF a > b THEN a ELSE b
Min2(a, b) == IF a < b THEN a ELSE b

\* ---- cells ---------------------------------------------------------------
Parent(c) == <<c[1], c[2] - 1, c[3] \div 4>>
AncestorAt(c, m) == <<c[1], m, c[3] \div P4(c[2] - m)>>                 \* m <= level
DescAt(c, m) == {<<c[1], m, c[3] * P4(m - c[2]) + x>> : x \in 0..(P4(m - c[2]) - 1)}   \* m >= level
CellContains(c, d) == c[1] = d[1] /\ c[2] <= d[2] /\ d[3] \div P4(d[2] - c[2]) = c[3]
CellsIntersect(c, d) == CellContains(c, d) \/ CellContains(d, c)
\* digits of k: the <<face, path>> form
PathOf(c) == [i \in 1..c[2] |-> (c[3] \div P4(c[2] - i)) % 4]

\* ---- leaves ----------------------------------------------------------------
Lo(c, L) == c[1] * P4(L) + c[3] * P4(L - c[2])                          \* L >= level
Width(c, L) == P4(L - c[2])
Leaves(c, L) == Lo(c, L)..(Lo(c, L) + Width(c, L) - 1)
LeafSet(X, L) == UNION {Leaves(c, L) : c \in X}
Lift(S, D, L) == UNION {(g * P4(L - D))..(g * P4(L - D) + P4(L - D) - 1) : g \in S}
CellOfLeaf(g, D) == <<g \div P4(D), D, g % P4(D)>>
MaxLevelOf(X) == IF X = {} THEN 0 ELSE Max({c[2] : c \in X})

\* ---- an exact discrete region (what the harness implements as s2.Region) --
RContains(S, D, c) ==
    IF c[2] >= D THEN Lo(AncestorAt(c, D), D) \in S ELSE Leaves(c, D) \subseteq S
RIntersects(S, D, c) ==
    IF c[2] >= D THEN Lo(AncestorAt(c, D), D) \in S ELSE Leaves(c, D) \cap S # {}
\* number of level-m cells that meet the region = the least size of any covering
\* that uses no cell above level m
NMin(S, D, m) ==
    IF m <= D THEN Cardinality({g \div P4(D - m) : g \in S}) ELSE Cardinality(S) * P4(m - D)

\* ---- unions ----------------------------------------------------------------
IsValidSeq(Xs) ==
    LET L == MaxLevelOf(Range(Xs))
    IN  \A i \in 1..(Len(Xs) - 1) : Lo(Xs[i], L) + Width(Xs[i], L) <= Lo(Xs[i + 1], L)
HasSiblingQuad(X) ==
    \E c \in X : c[2] > 0 /\ DescAt(Parent(c), c[2]) \subseteq X
Normalized(Xs) == IsValidSeq(Xs) /\ ~HasSiblingQuad(Range(Xs))

\* the unique normal form of a leaf set: the maximal cells lying inside it
CellInside(c, S, D) == Leaves(c, D) \subseteq S                          \* level <= D
Canon(S, D) ==
    LET cand == UNION {{AncestorAt(CellOfLeaf(g, D), l) : l \in 0..D} : g \in S}
    IN  {c \in cand : CellInside(c, S, D) /\ (c[2] = 0 \/ ~CellInside(Parent(c), S, D))}
SortCells(X) ==
    LET L == MaxLevelOf(X) IN SetToSortSeq(X, LAMBDA a, b : Lo(a, L) < Lo(b, L))

\* CellUnion.Denormalize(minLevel, levelMod): "any cell whose level is less than
\* minLevel or where (level - minLevel) is not a multiple of levelMod is replaced
\* by its children, until either both of these conditions are satisfied or the
\* maximum level is reached".  cap = the model level of the real level 30.
DenormLevel(l, mn, md, cap) ==
    LET a == Max2(l, mn)
        b == a + ((md - ((a - mn) % md)) % md)
    IN  Min2(b, cap)
Denorm(X, mn, md, cap) == UNION {DescAt(c, DenormLevel(c[2], mn, md, cap)) : c \in X}

\* ---- configurations: records [mn, mx, md, mc] --------------------------------
LevelOK(l, cfg) == l >= cfg.mn /\ l <= cfg.mx /\ (l - cfg.mn) % cfg.md = 0
LevelsOK(X, cfg) == \A c \in X : LevelOK(c[2], cfg)

DepthFor(D, X, cfg) == Max2(Max2(D, cfg.mx), MaxLevelOf(X))
Covers(S, D, X, cfg) ==
    LET L == DepthFor(D, X, cfg) IN Lift(S, D, L) \subseteq LeafSet(X, L)
Inside(S, D, X, cfg) ==
    LET L == DepthFor(D, X, cfg) IN LeafSet(X, L) \subseteq Lift(S, D, L)

\* MaxCells as documented on RegionCoverer, and nothing stronger:
\*  - "MinLevel takes priority over MaxCells, i.e. cells below the given level will never be
\*    used even if this causes a large number of cells to be returned";
\*  - "for any setting of MaxCells, up to 6 cells may be returned if that is the minimum number
\*    of cells required (e.g. if the region intersects all six face cells)";
\*  - "for any setting of MaxCells, an arbitrary number of cells may be returned if MinLevel is
\*    too high for the region being approximated".
\* NMin is the minimum number of cells required.  MaxCells may be exceeded only if even the
\* minimum exceeds it; with MinLevel = 0 (faces) the result is then that minimum, with
\* MinLevel > 0 the documentation promises no bound at all.  (A probe showed the real algorithm
\* returning 7 cells where MinLevel forces 6 and MaxCells is 4 - permitted by the third rule.)
MaxCellsOK(S, D, Xs, cfg) ==
    \/ Len(Xs) <= cfg.mc
    \/ /\ NMin(S, D, cfg.mn) > cfg.mc
       /\ (cfg.mn > 0 \/ Len(Xs) <= NMin(S, D, 0))

\* ---- the postconditions -------------------------------------------------------
CoveringOK(S, D, Xs, cfg) ==
    /\ Covers(S, D, Range(Xs), cfg)
    /\ LevelsOK(Range(Xs), cfg)
    /\ MaxCellsOK(S, D, Xs, cfg)
FastCoveringOK(S, D, Xs, cfg) ==
    /\ Covers(S, D, Range(Xs), cfg)
    /\ LevelsOK(Range(Xs), cfg)
InteriorCoveringOK(S, D, Xs, cfg) ==
    /\ Inside(S, D, Range(Xs), cfg)
    /\ LevelsOK(Range(Xs), cfg)
\* CellUnion()/InteriorCellUnion(): "a normalized CellUnion that ... satisfies the
\* restrictions except for minLevel and levelMod": normal form, no cell below
\* MaxLevel, and the (min, mod)-denormalisation satisfies the limits.
UnionLimitsOK(Xs, cfg, cap) ==
    /\ Normalized(Xs)
    /\ \A c \in Range(Xs) : c[2] <= cfg.mx
    /\ LevelsOK(Denorm(Range(Xs), cfg.mn, cfg.md, cap), cfg)
CellUnionOK(S, D, Xs, cfg, cap) == Covers(S, D, Range(Xs), cfg) /\ UnionLimitsOK(Xs, cfg, cap)
InteriorCellUnionOK(S, D, Xs, cfg, cap) == Inside(S, D, Range(Xs), cfg) /\ UnionLimitsOK(Xs, cfg, cap)

\* IsCanonical, clause by clause from its doc comment (ids of the model are
\* always valid).
CommonAncestorLevel(c, d) ==
    IF c[1] # d[1] THEN -1
    ELSE Max({-1} \cup {m \in 0..Min2(c[2], d[2]) : AncestorAt(c, m) = AncestorAt(d, m)})
IsCanonical(Xs, cfg) ==
    LET X == Range(Xs)
        deep == {c \in X : c[2] >= cfg.mn}
    IN  /\ IsValidSeq(Xs)
        /\ LevelsOK(X, cfg)
        \* "if the covering has more than MaxCells, there must be no two cells with a common
        \* ancestor at MinLevel or higher": the MinLevel ancestors are pairwise distinct
        /\ (Len(Xs) > cfg.mc =>
               Cardinality({AncestorAt(c, cfg.mn) : c \in deep}) = Cardinality(deep))
        \* "no sequence of cells that could be replaced by an ancestor"
        /\ ~\E c \in X : /\ c[2] - cfg.md >= cfg.mn
                         /\ c[3] % P4(cfg.md) = 0
                         /\ DescAt(AncestorAt(c, c[2] - cfg.md), c[2]) \subseteq X

\* ---- the postconditions are satisfiable (model-level sanity) ---------------------
SpecCovering(S, D, cfg) ==
    IF cfg.mn <= D THEN {AncestorAt(CellOfLeaf(g, D), cfg.mn) : g \in S}
    ELSE UNION {DescAt(CellOfLeaf(g, D), cfg.mn) : g \in S}
SpecInterior(S, D, cfg, cap) ==
    {c \in Denorm(Canon(S, D), cfg.mn, cfg.md, cap) : LevelOK(c[2], cfg)}
=============================================================================
