----------------------------- MODULE Trace_Wire -----------------------------
(***************************************************************************)
(* C09, trace direction: round trips recorded from golang/geo on values    *)
(* richer than the model can enumerate (any level up to 30, hundreds of    *)
(* vertices, all faces).  One event per value; fingerprints and encodings  *)
(* are hashes (strings), floats are order-preserving keys <<k2,k1,k0>>.    *)
(* The specification is relational:                                        *)
(*   decode(encode(v)) = v        fp0 = fp1 (coordinates bit for bit,      *)
(*                                vertex order, loop order, depths, flags) *)
(*   encoding is a function       enc1 = enc2, and enc3 = enc1 for the     *)
(*                                re-encoding of the decoded value         *)
(*   queries cannot tell          ans0 = ans1                              *)
(*   a bound that travels in the encoding comes back bit for bit, and so   *)
(*   does the subregion bound derived from it (bfp0 = bfp1)                *)
(*   ans0/ans1 include loop and polygon RELATION queries (Contains,        *)
(*   Intersects against fixed nested / overlapping / disjoint loops)       *)
(*   transport independence        tsig[k] = tref: decoding the encoding   *)
(*                                from a plain reader / from pieces of any *)
(*                                lengths gives the value and re-encoding  *)
(*                                that decoding from memory gives          *)
(*   receiver independence         rsig[k] = rref: decoding into a value   *)
(*                                that already holds another decoded value *)
(*                                (empty, full, small, large, ...) gives   *)
(*                                the state, answers and re-encoding that  *)
(*                                decoding into a fresh value gives        *)
(*   both polygon formats         every forced format gives fp0 / ans0     *)
(*   the format-choice rule       compressed iff 4n + 26(n - s) < 24n      *)
(*                                (n vertices, s at the most frequent snap *)
(*                                level), as Wire!Choice                   *)
(* Every line is judged (a rejected line is printed with tag BAD and the   *)
(* run continues), acceptance = all lines consumed.                        *)
(***************************************************************************)
EXTENDS Integers, Sequences, TLC, Json

CONSTANT TraceFile

Trace == ndJsonDeserialize(TraceFile)

VARIABLE i, bad

FEq(a, b) == a = b

ChoiceRule(e) == IF e.n = 0 \/ 4 * e.n + 26 * (e.n - e.snapped) < 24 * e.n THEN "compressed" ELSE "lossless"

Lossless(e) == e.fp0 = e.fp1
Deterministic(e) == e.enc1 = e.enc2 /\ e.enc1 = e.enc3
SameAnswers(e) == e.ans0 = e.ans1
BoundKept(e) == /\ e.bndenc => /\ Len(e.keys0) = Len(e.keys1)
                               /\ \A k \in 1..Len(e.keys0) : FEq(e.keys0[k], e.keys1[k])
                \* loop bounds (and the subregion bounds derived from them) that travel in the encoding
                /\ e.bfp0 = e.bfp1
BothFormats(e) == \A k \in 1..Len(e.altfp) : e.altfp[k] = e.fp0 /\ e.altans[k] = e.ans0 /\ e.altb0[k] = e.altb1[k]
\* Wire!ChunkingInvariant: the decoded value does not depend on how the reader delivered the bytes
TransportFree(e) == \A k \in 1..Len(e.tsig) : e.tsig[k] = e.tref
\* Wire!ReceiverLaw: the decoded value does not depend on what the receiver held before
ReceiverFree(e) == \A k \in 1..Len(e.rsig) : e.rsig[k] = e.rref
ChoiceOK(e) == e.type = "Polygon" => e.fmt = ChoiceRule(e) /\ e.snapped <= e.n

Why(e) ==
    IF e.err # "" THEN "error"
    ELSE IF ~Lossless(e) THEN "value"
    ELSE IF ~Deterministic(e) THEN "encoding-not-deterministic"
    ELSE IF ~SameAnswers(e) THEN "answers"
    ELSE IF ~BoundKept(e) THEN "bound"
    ELSE IF ~BothFormats(e) THEN "forced-format"
    ELSE IF ~TransportFree(e) THEN "transport"
    ELSE IF ~ReceiverFree(e) THEN "receiver"
    ELSE IF ~ChoiceOK(e) THEN "format-choice"
    ELSE ""

EventOK(e) == e.ev = "RoundTrip" /\ Why(e) = ""

Init == i = 1 /\ bad = 0
Next ==
    /\ i <= Len(Trace)
    /\ LET e == Trace[i]
       IN  IF EventOK(e) THEN bad' = bad
           ELSE /\ PrintT(<<"BAD", ToJson([line |-> i, tr |-> e.tr, type |-> e.type, kind |-> e.kind, why |-> Why(e)])>>)
                /\ bad' = bad + 1
    /\ i' = i + 1

AllConsumed == <>(i = Len(Trace) + 1)
Done == i = Len(Trace) + 1 => PrintT(<<"DONE", ToJson([lines |-> Len(Trace), bad |-> bad])>>)
=============================================================================
