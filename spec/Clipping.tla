------------------------------ MODULE Clipping ------------------------------
(***************************************************************************)
(* EXT (C06): s2/edge_clipping.go and the general-rectangle part of        *)
(* PaddedCell.ShrinkToFit, in exact integer / rational arithmetic.         *)
(*                                                                         *)
(* Part A - 2D clipping.  Points and rectangle bounds are points of the    *)
(*   integer grid 0..M (embedded as dyadic rationals (k - c) * 2^-s).  The *)
(*   segment AB is {A + t(B-A) : 0 <= t <= 1}; "the portion of AB that is  *)
(*   contained by the rectangle" is the parameter interval [T0, T1] of the *)
(*   points inside the closed rectangle R, computed with rational t.  This *)
(*   is the definition; the code clips bounding boxes by interpolation.    *)
(*   Classes: "int" AB meets the interior of R (robust: the code must      *)
(*   answer true), "out" AB misses the closed R (must answer false),       *)
(*   "touch" AB meets R only in its boundary (or R has no interior).  The  *)
(*   touch class is predicted exactly where every interpolated coordinate  *)
(*   is a dyadic rational (Exactable): then each floating-point operation  *)
(*   of the code is exact and the documented error bound is zero.          *)
(*   Theorems: LB = separating-axis formulation (what edgeIntersectsRect   *)
(*   evaluates), symmetry under A<->B, u<->v, negation of an axis,         *)
(*   monotonicity in R, clipped endpoints on the boundary of R or at A/B.  *)
(*                                                                         *)
(* Part B - face clipping in the lattice world W1 (integer vectors, see    *)
(*   Exact.tla).  The edge AB is the set of directions (1-t)A + tB; the    *)
(*   (padded) face f is the cone |u| <= R w, |v| <= R w in the (u,v,w)     *)
(*   frame of f (R = 1 + padding, rational).  Four linear constraints in   *)
(*   t: the part of AB on the face is again a rational parameter interval. *)
(*   Classes "in" (AB meets the open cone), "out" (misses the closed       *)
(*   cone), "touch".  The face sequence of FaceSegments is the sequence of *)
(*   "in" faces ordered by parameter, predicted when no face is "touch".   *)
(*                                                                         *)
(* Part C - PaddedCell.ShrinkToFit(rect) for an arbitrary rectangle whose  *)
(*   sides are grid lines K levels below the cell (degenerate rectangles,  *)
(*   rectangles reaching outside the cell, rectangles meeting the cell in  *)
(*   one corner): "the smallest cell that contains all descendants whose   *)
(*   bounds intersect rect", by enumeration of the descendants.            *)
(*   (PaddedCells.tla covers ChildIJ, Entry/ExitVertex, FromParentIJ,      *)
(*   Middle and ShrinkToFit of the bound of one descendant.)               *)
(*                                                                         *)
(* Part D - the exact predicates on a line normal N = (Nu, Nv, Nw):        *)
(*   sumEqual, intersectsFace, intersectsOppositeEdges, exitAxis.  Numbers *)
(*   are limb numbers c2*2^(2S) + c1*2^S + c0 with small c (S = 27) so     *)
(*   that sums of floats round, while the exact comparison is a            *)
(*   lexicographic comparison of small integer vectors.  The predicates    *)
(*   are DEFINED by the signs of N at the four corners of the face.        *)
(***************************************************************************)
EXTENDS Integers, Sequences, FiniteSets, TLC

Abs(x) == IF x < 0 THEN -x ELSE x
Sgn(x) == IF x > 0 THEN 1 ELSE IF x < 0 THEN -1 ELSE 0
Min2(a, b) == IF a <= b THEN a ELSE b
Max2(a, b) == IF a >= b THEN a ELSE b

(***************************************************************************)
(* Rationals <<n, d>> with d > 0.                                          *)
(***************************************************************************)
RLe(p, q) == p[1] * q[2] <= q[1] * p[2]
RLt(p, q) == p[1] * q[2] < q[1] * p[2]
REq(p, q) == p[1] * q[2] = q[1] * p[2]
RMax(p, q) == IF RLe(p, q) THEN q ELSE p
RMin(p, q) == IF RLe(p, q) THEN p ELSE q
R0 == <<0, 1>>
R1 == <<1, 1>>
RECURSIVE Gcd(_, _)
Gcd(a, b) == IF b = 0 THEN a ELSE Gcd(b, a % b)
RNorm(p) == LET g == Gcd(Abs(p[1]), p[2]) IN <<p[1] \div g, p[2] \div g>>
RECURSIVE OddPart(_)
OddPart(d) == IF d % 2 = 0 THEN OddPart(d \div 2) ELSE d
IsDyadic(p) == p[1] % OddPart(p[2]) = 0
ROneMinus(p) == <<p[2] - p[1], p[2]>>

(***************************************************************************)
(* Part A.  2D segments against closed rectangles R = <<x0, x1, y0, y1>>.  *)
(***************************************************************************)
\* the parameters t in [0,1] with lo <= a + t d <= hi: <<non-empty for d = 0, lower, upper>>
AxisRange(a, d, lo, hi) ==
    IF d = 0 THEN <<lo <= a /\ a <= hi, R0, R1>>
    ELSE IF d > 0 THEN <<TRUE, <<lo - a, d>>, <<hi - a, d>>>>
    ELSE <<TRUE, <<a - hi, -d>>, <<a - lo, -d>>>>
AxisOpen(a, d, lo, hi) == d # 0 \/ (lo < a /\ a < hi)

\* <<intersects, T0, T1, meets the interior>>
Clip2(A, B, R) ==
    LET dx == B[1] - A[1]
        dy == B[2] - A[2]
        xr == AxisRange(A[1], dx, R[1], R[2])
        yr == AxisRange(A[2], dy, R[3], R[4])
        t0 == RMax(R0, RMax(xr[2], yr[2]))
        t1 == RMin(R1, RMin(xr[3], yr[3]))
    IN  << xr[1] /\ yr[1] /\ RLe(t0, t1), t0, t1,
           AxisOpen(A[1], dx, R[1], R[2]) /\ AxisOpen(A[2], dy, R[3], R[4]) /\ RLt(t0, t1) >>
Meets2(A, B, R) == Clip2(A, B, R)[1]
Class2(c) == IF c[4] THEN "int" ELSE IF c[1] THEN "touch" ELSE "out"

\* the point A + t(B - A) as a pair of rationals
PtAt(A, B, t) == << RNorm(<<A[1] * t[2] + t[1] * (B[1] - A[1]), t[2]>>),
                    RNorm(<<A[2] * t[2] + t[1] * (B[2] - A[2]), t[2]>>) >>
PtEq(p, q) == REq(p[1], q[1]) /\ REq(p[2], q[2])

\* where the line AB meets the four supporting lines of R (the values the code interpolates):
\* <<axis of the given coordinate (1: x given, y interpolated; 2: y given), coordinate, value>>
\* only for lines inside the coordinate range of AB (the code never extrapolates)
Between(c, a, b) == Min2(a, b) <= c /\ c <= Max2(a, b)
YAtX(A, B, x) == LET dx == B[1] - A[1]  n == A[2] * dx + (B[2] - A[2]) * (x - A[1])
                 IN  RNorm(IF dx > 0 THEN <<n, dx>> ELSE <<-n, -dx>>)
XAtY(A, B, y) == LET dy == B[2] - A[2]  n == A[1] * dy + (B[1] - A[1]) * (y - A[2])
                 IN  RNorm(IF dy > 0 THEN <<n, dy>> ELSE <<-n, -dy>>)
LineCuts(A, B, R) ==
    {<<1, x, YAtX(A, B, x)>> : x \in {x \in {R[1], R[2]} : A[1] # B[1] /\ Between(x, A[1], B[1])}}
    \cup {<<2, y, XAtY(A, B, y)>> : y \in {y \in {R[3], R[4]} : A[2] # B[2] /\ Between(y, A[2], B[2])}}
Exactable(A, B, R) == \A c \in LineCuts(A, B, R) : IsDyadic(c[3])

\* the separating-axis formulation (the bounding boxes meet, and the corners of R are not all
\* strictly on one side of the line AB)
Side(A, B, c) == -(B[2] - A[2]) * (c[1] - A[1]) + (B[1] - A[1]) * (c[2] - A[2])
Corners(R) == {<<R[1], R[3]>>, <<R[2], R[3]>>, <<R[2], R[4]>>, <<R[1], R[4]>>}
SAT(A, B, R) ==
    /\ Max2(R[1], Min2(A[1], B[1])) <= Min2(R[2], Max2(A[1], B[1]))
    /\ Max2(R[3], Min2(A[2], B[2])) <= Min2(R[4], Max2(A[2], B[2]))
    /\ \E c \in Corners(R) : Side(A, B, c) >= 0
    /\ \E c \in Corners(R) : Side(A, B, c) <= 0

InRectQ(p, R) == /\ RLe(<<R[1], 1>>, p[1]) /\ RLe(p[1], <<R[2], 1>>)
                 /\ RLe(<<R[3], 1>>, p[2]) /\ RLe(p[2], <<R[4], 1>>)
OnBoundaryQ(p, R) == InRectQ(p, R) /\ (\/ REq(p[1], <<R[1], 1>>) \/ REq(p[1], <<R[2], 1>>)
                                       \/ REq(p[2], <<R[3], 1>>) \/ REq(p[2], <<R[4], 1>>))
Transpose(p) == <<p[2], p[1]>>
TransposeR(R) == <<R[3], R[4], R[1], R[2]>>
NegX(p, m) == <<m - p[1], p[2]>>
NegXR(R, m) == <<m - R[2], m - R[1], R[3], R[4]>>
Grow(R, k, m) == CASE k = 1 -> <<Max2(0, R[1] - 1), R[2], R[3], R[4]>>
                   [] k = 2 -> <<R[1], Min2(m, R[2] + 1), R[3], R[4]>>
                   [] k = 3 -> <<R[1], R[2], Max2(0, R[3] - 1), R[4]>>
                   [] OTHER -> <<R[1], R[2], R[3], Min2(m, R[4] + 1)>>
GrowAll(R, m) == <<Max2(0, R[1] - 1), Min2(m, R[2] + 1), Max2(0, R[3] - 1), Min2(m, R[4] + 1)>>

\* the theorems of part A for one segment, rectangle and its evaluation c = Clip2(A, B, R)
LawSAT(A, B, R, c) == c[1] <=> SAT(A, B, R)
LawSwap(A, B, R, c) ==
    LET d == Clip2(B, A, R) IN
    /\ d[1] = c[1] /\ d[4] = c[4]
    /\ c[1] => /\ REq(d[2], ROneMinus(c[3])) /\ REq(d[3], ROneMinus(c[2]))
               /\ PtEq(PtAt(B, A, d[2]), PtAt(A, B, c[3]))
LawMirror(A, B, R, c, m) ==
    LET d == Clip2(Transpose(A), Transpose(B), TransposeR(R))
        e == Clip2(NegX(A, m), NegX(B, m), NegXR(R, m))
    IN  /\ d[1] = c[1] /\ d[4] = c[4] /\ (c[1] => REq(d[2], c[2]) /\ REq(d[3], c[3]))
        /\ e[1] = c[1] /\ e[4] = c[4] /\ (c[1] => REq(e[2], c[2]) /\ REq(e[3], c[3]))
LawMono(A, B, R, c, m) ==
    \A k \in 1..4 : LET d == Clip2(A, B, Grow(R, k, m)) IN
        /\ c[1] => (d[1] /\ RLe(d[2], c[2]) /\ RLe(c[3], d[3]))
        /\ c[4] => d[4]
LawEnds(A, B, R, c) ==
    c[1] => /\ InRectQ(PtAt(A, B, c[2]), R) /\ InRectQ(PtAt(A, B, c[3]), R)
            /\ c[2] = R0 \/ OnBoundaryQ(PtAt(A, B, c[2]), R)
            /\ c[3] = R1 \/ OnBoundaryQ(PtAt(A, B, c[3]), R)
            /\ (A = B) => (c[2] = R0 /\ c[3] = R1)
LawClass(A, B, R, c) ==
    /\ c[4] => (c[1] /\ R[1] < R[2] /\ R[3] < R[4])
    \* a point of the open rectangle on AB: the midpoint of the clipped part (when AB has two points)
    /\ (c[4] /\ A # B) =>
          LET mid == <<c[2][1] * c[3][2] + c[3][1] * c[2][2], 2 * c[2][2] * c[3][2]>>
              p == PtAt(A, B, mid)
          IN  InRectQ(p, R) /\ ~OnBoundaryQ(p, R)

(***************************************************************************)
(* Part B.  Great-circle edges between lattice points against cube faces.  *)
(***************************************************************************)
Dot3(a, b) == a[1] * b[1] + a[2] * b[2] + a[3] * b[3]
Cross3(a, b) == << a[2]*b[3] - a[3]*b[2], a[3]*b[1] - a[1]*b[3], a[1]*b[2] - a[2]*b[1] >>
Neg3(a) == << -a[1], -a[2], -a[3] >>
Parallel3(a, b) == Cross3(a, b) = <<0, 0, 0>>
Primitive(p) == Gcd(Gcd(Abs(p[1]), Abs(p[2])), Abs(p[3])) = 1
\* S2's (u,v,w) frame of face f (faceXYZtoUVW)
UVW(f, p) == CASE f = 0 -> << p[2],  p[3],  p[1]>>
               [] f = 1 -> <<-p[1],  p[3],  p[2]>>
               [] f = 2 -> <<-p[1], -p[2],  p[3]>>
               [] f = 3 -> <<-p[3], -p[2], -p[1]>>
               [] f = 4 -> <<-p[3],  p[1], -p[2]>>
               [] OTHER -> << p[2],  p[1], -p[3]>>
\* the four half-spaces of the face padded to R = rr[1] / rr[2]
FaceCons(q, rr) == << rr[1] * q[3] - rr[2] * q[1], rr[1] * q[3] + rr[2] * q[1],
                      rr[1] * q[3] - rr[2] * q[2], rr[1] * q[3] + rr[2] * q[2] >>
\* (1-t) la + t lb >= 0 on [0,1]: <<feasible, lower, upper, open-feasible>>
ConRange(la, lb) ==
    IF la < 0 /\ lb < 0 THEN <<FALSE, R0, R1, FALSE>>
    ELSE IF la < 0 THEN <<TRUE, <<-la, lb - la>>, R1, lb > 0>>
    ELSE IF lb < 0 THEN <<TRUE, R0, <<la, la - lb>>, la > 0>>
    ELSE <<TRUE, R0, R1, la > 0 \/ lb > 0>>
\* <<meets the closed face, T0, T1, meets the open face>>
ClipFace(A, B, f, rr) ==
    LET la == FaceCons(UVW(f, A), rr)
        lb == FaceCons(UVW(f, B), rr)
        c1 == ConRange(la[1], lb[1])  c2 == ConRange(la[2], lb[2])
        c3 == ConRange(la[3], lb[3])  c4 == ConRange(la[4], lb[4])
        t0 == RMax(RMax(c1[2], c2[2]), RMax(c3[2], c4[2]))
        t1 == RMin(RMin(c1[3], c2[3]), RMin(c3[3], c4[3]))
        feas == c1[1] /\ c2[1] /\ c3[1] /\ c4[1]
    IN  << feas /\ RLe(t0, t1), RNorm(t0), RNorm(t1),
           feas /\ c1[4] /\ c2[4] /\ c3[4] /\ c4[4] /\ (RLt(t0, t1) \/ A = B) >>
ClassF(c) == IF c[4] THEN "in" ELSE IF c[1] THEN "touch" ELSE "out"
\* the direction (1-t)A + tB scaled to integers
DirAt(A, B, t) == << (t[2] - t[1]) * A[1] + t[1] * B[1], (t[2] - t[1]) * A[2] + t[1] * B[2],
                     (t[2] - t[1]) * A[3] + t[1] * B[3] >>
OnFaceClosed(p, f, rr) == \A l \in {FaceCons(UVW(f, p), rr)} : l[1] >= 0 /\ l[2] >= 0 /\ l[3] >= 0 /\ l[4] >= 0
OnFaceOpen(p, f, rr) == \A l \in {FaceCons(UVW(f, p), rr)} : l[1] > 0 /\ l[2] > 0 /\ l[3] > 0 /\ l[4] > 0
ValidEdge3(A, B) == A = B \/ ~Parallel3(A, B)
Faces == 0..5
RUnit == <<1, 1>>

\* the faces of an evaluation vector cs = [f \in Faces |-> ClipFace(A, B, f, RUnit)]
InFaces(cs) == {f \in Faces : cs[f][4]}
TouchFaces(cs) == {f \in Faces : cs[f][1] /\ ~cs[f][4]}
RECURSIVE OrderByT0(_, _)
OrderByT0(cs, S) ==
    IF S = {} THEN <<>>
    ELSE LET f == CHOOSE g \in S : \A h \in S : RLe(cs[g][2], cs[h][2])
         IN  <<f>> \o OrderByT0(cs, S \ {f})
FaceSeq(cs) == OrderByT0(cs, InFaces(cs))
Adjacent(f, g) == f # g /\ (f + 3) % 6 # g

\* theorems of part B
LawCover(A, B, cs) ==      \* every direction of AB lies on some closed face: end points, break points, mid points
    LET ts == {R0, R1} \cup UNION {{cs[f][2], cs[f][3]} : f \in {g \in Faces : cs[g][1]}}
        mids == {<<p[1] * q[2] + q[1] * p[2], 2 * p[2] * q[2]>> : p \in ts, q \in ts}
    IN  \A t \in ts \cup mids : \E f \in Faces : OnFaceClosed(DirAt(A, B, t), f, RUnit)
LawTile(A, B, cs) ==       \* without touching faces the "in" faces tile [0,1] in order, and neighbours are adjacent faces
    TouchFaces(cs) = {} =>
        LET s == FaceSeq(cs) IN
        /\ Len(s) >= 1 /\ cs[s[1]][2] = R0 /\ cs[s[Len(s)]][3] = R1
        /\ \A k \in 1..(Len(s) - 1) : cs[s[k]][3] = cs[s[k + 1]][2] /\ Adjacent(s[k], s[k + 1])
        /\ OnFaceOpen(A, s[1], RUnit) /\ OnFaceOpen(B, s[Len(s)], RUnit)
LawSwapF(A, B, cs) ==
    \A f \in Faces : LET d == ClipFace(B, A, f, RUnit) IN
        /\ d[1] = cs[f][1] /\ d[4] = cs[f][4]
        /\ d[1] => d[2] = RNorm(ROneMinus(cs[f][3])) /\ d[3] = RNorm(ROneMinus(cs[f][2]))
LawAntipode(A, B, cs) ==
    \A f \in Faces : LET d == ClipFace(Neg3(A), Neg3(B), (f + 3) % 6, RUnit) IN
        d[1] = cs[f][1] /\ d[4] = cs[f][4] /\ d[2] = cs[f][2] /\ d[3] = cs[f][3]
LawPad(A, B, cs, rr) ==    \* padding only adds: the clipped part grows, classes only move out -> touch -> in
    \A f \in Faces : LET d == ClipFace(A, B, f, rr) IN
        /\ cs[f][1] => (d[1] /\ RLe(d[2], cs[f][2]) /\ RLe(cs[f][3], d[3]))
        /\ cs[f][4] => d[4]
LawEndsF(A, B, cs) ==
    \A f \in Faces : cs[f][1] =>
        /\ OnFaceClosed(DirAt(A, B, cs[f][2]), f, RUnit) /\ OnFaceClosed(DirAt(A, B, cs[f][3]), f, RUnit)
        /\ cs[f][4] => \/ A = B
                       \/ OnFaceOpen(DirAt(A, B, <<cs[f][2][1] * cs[f][3][2] + cs[f][3][1] * cs[f][2][2],
                                                  2 * cs[f][2][2] * cs[f][3][2]>>), f, RUnit)

(***************************************************************************)
(* Part C.  ShrinkToFit of a grid rectangle.  The cell is the square       *)
(* [0, 2^K]^2 of the grid K levels below it; rect = [i1,i2] x [j1,j2] in   *)
(* grid lines (may reach outside, may be degenerate), and must intersect   *)
(* the cell.  A level-K descendant (i, j) is the closed square             *)
(* [i,i+1] x [j,j+1]; closed squares that touch intersect.                 *)
(***************************************************************************)
P2(k) == 2 ^ k
RectMeetsCell(K, r) == r[1] <= P2(K) /\ r[2] >= 0 /\ r[3] <= P2(K) /\ r[4] >= 0
Touching(K, r) == {d \in (0..(P2(K) - 1)) \X (0..(P2(K) - 1)) :
                      d[1] + 1 >= r[1] /\ d[1] <= r[2] /\ d[2] + 1 >= r[3] /\ d[2] <= r[4]}
AncestorAt(K, d, k) == <<d[1] \div P2(K - k), d[2] \div P2(K - k)>>
\* the answer: <<k, i, j>> = the level-k cell (relative) (i, j); when a single level-K descendant
\* touches (the rectangle meets the cell in one corner) the recursion continues below it for ever:
\* <<-1, ci, cj>> = the leaf cell in the corner (ci, cj) of the cell
ShrinkAnswer(K, r) ==
    LET S == Touching(K, r)
        k == CHOOSE kk \in 0..K : /\ \A d \in S, e \in S : AncestorAt(K, d, kk) = AncestorAt(K, e, kk)
                                  /\ kk = K \/ \E d \in S, e \in S : AncestorAt(K, d, kk + 1) # AncestorAt(K, e, kk + 1)
        d0 == CHOOSE d \in S : TRUE
    IN  IF k = K /\ K > 0 THEN <<-1, IF d0[1] = 0 THEN 0 ELSE 1, IF d0[2] = 0 THEN 0 ELSE 1>>
        ELSE <<k, AncestorAt(K, d0, k)[1], AncestorAt(K, d0, k)[2]>>
\* the interval formulation the code uses (lowest and highest touching coordinate, highest differing bit)
ShrinkByRange(K, r) ==
    LET ilo == Max2(0, r[1] - 1)  ihi == Min2(P2(K) - 1, r[2])
        jlo == Max2(0, r[3] - 1)  jhi == Min2(P2(K) - 1, r[4])
        same(kk) == ilo \div P2(K - kk) = ihi \div P2(K - kk) /\ jlo \div P2(K - kk) = jhi \div P2(K - kk)
        k == CHOOSE kk \in 0..K : same(kk) /\ (kk = K \/ ~same(kk + 1))
    IN  IF k = K /\ K > 0 THEN <<-1, IF ilo = 0 THEN 0 ELSE 1, IF jlo = 0 THEN 0 ELSE 1>>
        ELSE <<k, ilo \div P2(K - k), jlo \div P2(K - k)>>
LawShrink(K, r) == ShrinkAnswer(K, r) = ShrinkByRange(K, r)
\* the quick rejection of the documentation: a rectangle containing the centre of the cell along
\* either axis cannot be shrunk
LawCentre(K, r) ==
    (K > 0 /\ ((r[1] <= P2(K - 1) /\ P2(K - 1) <= r[2]) \/ (r[3] <= P2(K - 1) /\ P2(K - 1) <= r[4])))
        => ShrinkAnswer(K, r)[1] = 0

(***************************************************************************)
(* Part D.  Limb numbers <<c2, c1, c0>> = c2 B^2 + c1 B + c0, B = 2^S,     *)
(* |c| small: the sign of a sum of a few of them is the sign of its first  *)
(* non-zero limb.                                                          *)
(***************************************************************************)
LAdd(a, b) == <<a[1] + b[1], a[2] + b[2], a[3] + b[3]>>
LNeg(a) == <<-a[1], -a[2], -a[3]>>
LSub(a, b) == LAdd(a, LNeg(b))
LSgn(a) == IF a[1] # 0 THEN Sgn(a[1]) ELSE IF a[2] # 0 THEN Sgn(a[2]) ELSE Sgn(a[3])
LAbs(a) == IF LSgn(a) < 0 THEN LNeg(a) ELSE a
LScale(s, a) == <<s * a[1], s * a[2], s * a[3]>>
LZero == <<0, 0, 0>>
\* sign of N at the corner (su, sv) of the face: su Nu + sv Nv + Nw
CornerSign(n, su, sv) == LSgn(LAdd(LAdd(LScale(su, n[1]), LScale(sv, n[2])), n[3]))
\* "the dot products of N with the four corner vertices do not all have the same sign"
IntersectsFaceDef(n) ==
    /\ \E su \in {-1, 1}, sv \in {-1, 1} : CornerSign(n, su, sv) >= 0
    /\ \E su \in {-1, 1}, sv \in {-1, 1} : CornerSign(n, su, sv) <= 0
    /\ (n[1] # LZero \/ n[2] # LZero)
IntersectsFaceFormula(n) == LSgn(LSub(LAdd(LAbs(n[1]), LAbs(n[2])), LAbs(n[3]))) >= 0
\* the line meets the closed edge between two corners
MeetsEdge(n, c, d) == CornerSign(n, c[1], c[2]) * CornerSign(n, d[1], d[2]) <= 0
OppositeEdgesDef(n) ==
    \/ MeetsEdge(n, <<-1, -1>>, <<-1, 1>>) /\ MeetsEdge(n, <<1, -1>>, <<1, 1>>)
    \/ MeetsEdge(n, <<-1, -1>>, <<1, -1>>) /\ MeetsEdge(n, <<-1, 1>>, <<1, 1>>)
OppositeEdgesFormula(n) ==
    LSgn(LSub(LAbs(LSub(LAbs(n[1]), LAbs(n[2]))), LAbs(n[3]))) >= 0
\* The directed line moves in direction (Nv, -Nu).  It leaves through the edge u = su, su = sign(Nv),
\* when its point with u = su has |v| <= 1, i.e. |su Nu + Nw| <= |Nv|; through v = sv, sv = -sign(Nu),
\* when |sv Nv + Nw| <= |Nu|.  Both at a corner.  0 = u-axis, 1 = v-axis.
ExitAxes(n) ==
    LET su == LSgn(n[2])  sv == -LSgn(n[1]) IN
    (IF su # 0 /\ LSgn(LSub(LAbs(n[2]), LAbs(LAdd(LScale(su, n[1]), n[3])))) >= 0 THEN {0} ELSE {})
    \cup (IF sv # 0 /\ LSgn(LSub(LAbs(n[1]), LAbs(LAdd(LScale(sv, n[2]), n[3])))) >= 0 THEN {1} ELSE {})
\* the rule of the code: opposite edges -> the axis of the smaller normal component; adjacent edges ->
\* parity of the negative components
ExitAxisRule(n) ==
    IF OppositeEdgesDef(n) THEN (IF LSgn(LSub(LAbs(n[1]), LAbs(n[2]))) >= 0 THEN 1 ELSE 0)
    ELSE LET neg == Cardinality({k \in 1..3 : LSgn(n[k]) < 0}) IN IF neg % 2 = 0 THEN 1 ELSE 0
SumEqualDef(u, v, w) == LSub(LAdd(u, v), w) = LZero
NonZeroN(n) == n[1] # LZero \/ n[2] # LZero \/ n[3] # LZero
LawFaceFormula(n) == NonZeroN(n) => (IntersectsFaceDef(n) <=> IntersectsFaceFormula(n))
LawOppositeFormula(n) == IntersectsFaceDef(n) => (OppositeEdgesDef(n) <=> OppositeEdgesFormula(n))
LawExit(n) == IntersectsFaceDef(n) => (ExitAxes(n) # {} /\
                  ExitAxisRule(n) \in ExitAxes(n))
=============================================================================
