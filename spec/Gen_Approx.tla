----------------------------- MODULE Gen_Approx -----------------------------
(* C20, direction A: enumeration of the configurations.                        *)
(*  tess  projection x scale x tolerance exponent x every ordered pair of the  *)
(*        lattice points SubIdx (non-parallel), with its exact classification; *)
(*        Mercator never gets an edge that touches or passes a pole            *)
(*  cell  projection x scale x tolerance exponent (small tolerances) x edges   *)
(*        of deep grid cells (class: plain / equator / antimeridian)           *)
(*  snap  every level 0..30 and exponent 0..10 (and the default cell snapper)  *)
(*  sub   polyline family x length x tolerance exponent                        *)
EXTENDS Approx, Json

CONSTANT SubIdx
CONSTANT Projs, Scales      \* sets of strings / indices (the harness maps a scale index to a float)
CONSTANT TolExps            \* tolerance = 10^-e for lattice edges
CONSTANT SmallTolExps       \* for deep cell edges
CONSTANT CellLevels
CONSTANT Families, Lengths, SubTolExps
CONSTANT SnapLevels, SnapExps

PtSeq == SetToSortSeq(Pts, LexLess)
Sub == {PtSeq[i] : i \in SubIdx \cap (1..Len(PtSeq))}

VARIABLE t
Init ==
    \/ t \in {[kind |-> "tessroot", a |-> a] : a \in Sub}
    \/ t \in {[kind |-> "cellroot", lvl |-> l] : l \in CellLevels}
    \/ t \in {[kind |-> "snaproot"], [kind |-> "subroot"]}
Next ==
    \/ /\ t.kind = "tessroot"
       /\ t' \in {[kind |-> "tess", proj |-> p, scale |-> s, tolexp |-> e, a |-> t.a, b |-> b] :
                     p \in Projs, s \in Scales, e \in TolExps, b \in {b \in Sub : ~Parallel(t.a, b)}}
    \/ /\ t.kind = "cellroot"
       /\ t' \in {[kind |-> "cell", proj |-> p, scale |-> s, tolexp |-> e, lvl |-> t.lvl, where |-> w] :
                     p \in Projs, s \in Scales, e \in SmallTolExps, w \in {"plain", "equator", "antimeridian", "polar"}}
    \/ /\ t.kind = "snaproot"
       /\ t' \in {[kind |-> "snap", snapper |-> "cell", arg |-> l] : l \in SnapLevels}
                 \cup {[kind |-> "snap", snapper |-> "latlng", arg |-> e] : e \in SnapExps}
                 \cup {[kind |-> "snap", snapper |-> "cell-default", arg |-> 30]}
    \/ /\ t.kind = "subroot"
       /\ t' \in {[kind |-> "sub", family |-> f, n |-> n, tolexp |-> e] : f \in Families, n \in Lengths, e \in SubTolExps}

\* Mercator is not defined at the poles
Admissible ==
    t.kind = "tess" => ~(t.proj = "mercator" /\ (PoleEndpoint(t.a, t.b) \/ ThroughPole(t.a, t.b)))
\* model theorems on the classification
ClassThm ==
    t.kind = "tess" =>
        /\ EdgeClass(t.a, t.b) = EdgeClass(t.b, t.a)
        /\ (CrossesEquator(t.a, t.b) => ~TouchesEquator(t.a, t.b))
        /\ (ThroughPole(t.a, t.b) => OnMeridian(t.a, t.b))

Emit ==
    IF t.kind = "tess" /\ Admissible
    THEN PrintT(<<"CASE", ToJson([op |-> "c20.tess", proj |-> t.proj, scale |-> t.scale, tolexp |-> t.tolexp,
                                  a |-> t.a, b |-> t.b, cls |-> SetToSeq(EdgeClass(t.a, t.b))])>>)
    ELSE IF t.kind = "cell" /\ ~(t.proj = "mercator" /\ t.where = "polar")
    THEN PrintT(<<"CASE", ToJson([op |-> "c20.cell", proj |-> t.proj, scale |-> t.scale, tolexp |-> t.tolexp,
                                  lvl |-> t.lvl, where |-> t.where])>>)
    ELSE IF t.kind = "snap"
    THEN PrintT(<<"CASE", ToJson([op |-> "c20.snap", snapper |-> t.snapper, arg |-> t.arg])>>)
    ELSE IF t.kind = "sub"
    THEN PrintT(<<"CASE", ToJson([op |-> "c20.sub", family |-> t.family, n |-> t.n, tolexp |-> t.tolexp])>>)
    ELSE TRUE
=============================================================================
