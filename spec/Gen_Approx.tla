----------------------------- MODULE Gen_Approx -----------------------------
(* C20, direction A: enumeration of the configurations.                        *)
(*  tess  projection x scale x tolerance exponent x every ordered pair of the  *)
(*        lattice points SubIdx (non-parallel), with its exact classification; *)
(*        Mercator never gets an edge that touches or passes a pole            *)
(*  cell  projection x scale x tolerance exponent (small tolerances) x edges   *)
(*        of deep grid cells (class: plain / equator / antimeridian)           *)
(*  snap  every level 0..30 and exponent 0..10 (and the default cell snapper)  *)
(*  sub   polyline family x length x tolerance exponent                        *)
EXTENDS Approx, Json

CONSTANT SubIdx
CONSTANT Projs, Scales      \* sets of strings / indices (the harness maps a scale index to a float)
CONSTANT TolExps            \* tolerance = 10^-e for lattice edges
CONSTANT SmallTolExps       \* for deep cell edges
CONSTANT CellLevels
CONSTANT Families, Lengths, SubTolExps
CONSTANT SnapLevels, SnapExps
\* sweep: edges across the equator given in integer degrees: from latitude -s (s in SweepSouth),
\* longitude l (in SweepLng, 0..359 east) to latitude +n (SweepNorth), longitude l + d (SweepDLng),
\* at the tolerance 1e-4 * 10^(3k/23) for every k in SweepTols (24 log-spaced values up to 1e-1)
CONSTANT SweepSouth, SweepNorth, SweepLng, SweepDLng, SweepTols

PtSeq == SetToSortSeq(Pts, LexLess)
Sub == {PtSeq[i] : i \in SubIdx \cap (1..Len(PtSeq))}

VARIABLE t
Init ==
    \/ t \in {[kind |-> "tessroot", a |-> a] : a \in Sub}
    \/ t \in {[kind |-> "cellroot", lvl |-> l] : l \in CellLevels}
    \/ t \in {[kind |-> "snaproot"], [kind |-> "subroot"]}
    \/ t \in {[kind |-> "sweeproot", s |-> s, l |-> l] : s \in SweepSouth, l \in SweepLng}
Next ==
    \/ /\ t.kind = "tessroot"
       /\ t' \in {[kind |-> "tess", proj |-> p, scale |-> s, tolexp |-> e, a |-> t.a, b |-> b] :
                     p \in Projs, s \in Scales, e \in TolExps, b \in {b \in Sub : ~Parallel(t.a, b)}}
    \/ /\ t.kind = "cellroot"
       /\ t' \in {[kind |-> "cell", proj |-> p, scale |-> s, tolexp |-> e, lvl |-> t.lvl, where |-> w] :
                     p \in Projs, s \in Scales, e \in SmallTolExps, w \in {"plain", "equator", "antimeridian", "polar"}}
    \/ /\ t.kind = "snaproot"
       /\ t' \in {[kind |-> "snap", snapper |-> "cell", arg |-> l] : l \in SnapLevels}
                 \cup {[kind |-> "snap", snapper |-> "latlng", arg |-> e] : e \in SnapExps}
                 \cup {[kind |-> "snap", snapper |-> "cell-default", arg |-> 30]}
    \/ /\ t.kind = "sweeproot"
       /\ t' \in {[kind |-> "sweep", proj |-> p, scale |-> sc, s |-> t.s, l |-> t.l, n |-> n, d |-> d, k |-> k] :
                     p \in Projs, sc \in Scales, n \in SweepNorth, d \in SweepDLng, k \in SweepTols}
    \/ /\ t.kind = "subroot"
       /\ t' \in {[kind |-> "sub", family |-> f, n |-> n, tolexp |-> e] : f \in Families, n \in Lengths, e \in SubTolExps}

\* Mercator is not defined at the poles
Admissible ==
    t.kind = "tess" => ~(t.proj = "mercator" /\ (PoleEndpoint(t.a, t.b) \/ ThroughPole(t.a, t.b)))
\* model theorems on the classification
ClassThm ==
    t.kind = "tess" =>
        /\ EdgeClass(t.a, t.b) = EdgeClass(t.b, t.a)
        /\ (CrossesEquator(t.a, t.b) => ~TouchesEquator(t.a, t.b))
        /\ (ThroughPole(t.a, t.b) => OnMeridian(t.a, t.b))

\* exact facts about a sweep edge (integer degrees): it crosses the equator in its interior, spans less
\* than 180 degrees of longitude, and crosses the antimeridian iff 180 lies strictly inside its longitude range
SweepThm ==
    t.kind = "sweep" => /\ t.s > 0 /\ t.n > 0 /\ t.s < 90 /\ t.n < 90 /\ t.d > 0 /\ t.d < 180
SweepAnti == t.l < 180 /\ 180 < t.l + t.d

Emit ==
    IF t.kind = "sweep"
    THEN PrintT(<<"CASE", ToJson([op |-> "c20.sweep", proj |-> t.proj, scale |-> t.scale, s |-> t.s, l |-> t.l, n |-> t.n,
                                  d |-> t.d, k |-> t.k, anti |-> SweepAnti])>>)
    ELSE IF t.kind = "tess" /\ Admissible
    THEN PrintT(<<"CASE", ToJson([op |-> "c20.tess", proj |-> t.proj, scale |-> t.scale, tolexp |-> t.tolexp,
                                  a |-> t.a, b |-> t.b, cls |-> SetToSeq(EdgeClass(t.a, t.b))])>>)
    ELSE IF t.kind = "cell" /\ ~(t.proj = "mercator" /\ t.where = "polar")
    THEN PrintT(<<"CASE", ToJson([op |-> "c20.cell", proj |-> t.proj, scale |-> t.scale, tolexp |-> t.tolexp,
                                  lvl |-> t.lvl, where |-> t.where])>>)
    ELSE IF t.kind = "snap"
    THEN PrintT(<<"CASE", ToJson([op |-> "c20.snap", snapper |-> t.snapper, arg |-> t.arg])>>)
    ELSE IF t.kind = "sub"
    THEN PrintT(<<"CASE", ToJson([op |-> "c20.sub", family |-> t.family, n |-> t.n, tolexp |-> t.tolexp])>>)
    ELSE TRUE
=============================================================================
