----------------------------- MODULE Gen_Shapes -----------------------------
(* C06 (i): every abstract shape within the bounds is a case; the laws of the  *)
(* chain contract are checked on the model, the tables are replayed into the   *)
(* real shape types.                                                           *)
EXTENDS Shapes, Json

CONSTANT MaxChains     \* LaxPolygon: 0..MaxChains loops
CONSTANT MaxLen        \* LaxPolygon: 0..MaxLen vertices per loop
CONSTANT MaxSingle     \* single-component kinds: 0..MaxSingle vertices
CONSTANT PolyLens      \* Polygon: admissible loop lengths (each >= 3)
CONSTANT MaxPolyLoops  \* Polygon: 1..MaxPolyLoops loops, every nesting of depth <= 2
CONSTANT BigPoly       \* Polygon: additional loop counts (beyond the linear-search limit of 12)
CONSTANT BigLax        \* LaxPolygon: additional loop counts (beyond 12), with empty loops among them

NoHoles(n) == [i \in 1..n |-> FALSE]
ZeroDepth(n) == [i \in 1..n |-> 0]

\* nesting as the depth of each loop in depth-first order
DepthSeqs(k) == {d \in [1..k -> 0..2] : d[1] = 0 /\ \A i \in 2..k : d[i] <= d[i - 1] + 1}
HolesOf(d) == [i \in 1..Len(d) |-> d[i] % 2 = 1]

Mk(kind, vc, depth) == [kind |-> kind, vc |-> vc, depth |-> depth, holes |-> HolesOf(depth)]

PolyLenSeq == CHOOSE s \in [1..Cardinality(PolyLens) -> PolyLens] :
                 \A i \in 1..(Cardinality(PolyLens) - 1) : s[i] < s[i + 1]

BigDepths(k) == { ZeroDepth(k),
                  [i \in 1..k |-> IF i = 1 THEN 0 ELSE 1],
                  [i \in 1..k |-> (i + 1) % 2],
                  [i \in 1..k |-> IF i = 1 THEN 0 ELSE IF i % 2 = 0 THEN 1 ELSE 2] }

\* Chain-length vectors for a LaxPolygon of k loops in which some loops are empty (the full
\* loop: a chain of length 0): empty loops at the start, in the middle and at the end,
\* single-vertex loops right after an empty one, two consecutive empty loops, the full
\* polygon with k-1 point holes, only empty loops.
BigLaxVectors(k) ==
    {[i \in 1..k |-> (i + s) % 4] : s \in 0..3}
    \cup {[i \in 1..k |-> IF (i + s) % 5 < 2 THEN 0 ELSE 1 + (i % 2)] : s \in 0..4}
    \cup {[i \in 1..k |-> IF i = e THEN 0 ELSE 1] : e \in {1, 2, (k + 1) \div 2, k - 1, k}}
    \cup {[i \in 1..k |-> IF i \in {e, e + 1} THEN 0 ELSE 1 + (i % 3)] : e \in {1, k \div 2, k - 1}}
    \cup {[i \in 1..k |-> IF i \in {1, k} THEN 0 ELSE 3], [i \in 1..k |-> 0], [i \in 1..k |-> 1]}

ShapesOf(kind) ==
    CASE kind \in {"PointVector", "Polyline", "LaxPolyline", "LaxLoop"} ->
            {Mk(kind, <<n>>, <<0>>) : n \in 0..MaxSingle}
      [] kind = "Loop" -> {Mk(kind, <<n>>, <<0>>) : n \in 3..MaxSingle}
      [] kind \in {"EmptyLoop", "EmptyPolygon"} -> {Mk(kind, <<>>, <<>>)}
      [] kind \in {"FullLoop", "FullPolygon"} -> {Mk(kind, <<0>>, <<0>>)}
      [] kind = "LaxPolygon" ->
            UNION {{Mk(kind, vc, ZeroDepth(k)) : vc \in [1..k -> 0..MaxLen]} : k \in 0..MaxChains}
            \cup UNION {{Mk(kind, vc, ZeroDepth(k)) : vc \in BigLaxVectors(k)} : k \in BigLax}
      [] kind = "Polygon" ->
            UNION {{Mk(kind, vc, d) : vc \in [1..k -> PolyLens], d \in DepthSeqs(k)} : k \in 1..MaxPolyLoops}
            \cup
            UNION {{Mk(kind, [i \in 1..k |-> PolyLenSeq[1 + ((i + s) % Len(PolyLenSeq))]], d) :
                        s \in 0..1, d \in BigDepths(k)} : k \in BigPoly}

VARIABLE t
Init == t \in {<<k>> : k \in Kinds}
Next == Len(t) = 1 /\ t' \in {<<t[1], sh>> : sh \in ShapesOf(t[1])}

Full == Len(t) = 2
Sh == t[2]

WellFormedInv == Full => WellFormed(Sh)
LawsInv == Full => Laws(Sh)
\* the holes of a polygon are the loops of odd depth; a nesting is a forest in depth-first order
DepthInv == Full => Len(Sh.depth) = Len(Sh.vc) /\ (Len(Sh.depth) > 0 => Sh.depth[1] = 0)

LaxOf(sh) == Mk("LaxPolygon", sh.vc, ZeroDepth(Len(sh.vc)))
LaxSameChains == Full /\ Sh.kind = "Polygon" =>
                    /\ ChainLens(LaxOf(Sh)) = ChainLens(Sh)
                    /\ \A e \in EdgeIds(Sh) : ChainPosition(LaxOf(Sh), e) = ChainPosition(Sh, e)

SeqOf(n, F(_)) == [i \in 1..n |-> F(i - 1)]

Emit ==
    IF Full
    THEN LET ne == NumEdges(Sh) nc == NumChains(Sh)
         IN  PrintT(<<"CASE", ToJson(
                [op |-> "shape", kind |-> Sh.kind, vc |-> Sh.vc, depth |-> Sh.depth, holes |-> Sh.holes,
                 dim |-> Dimension(Sh), nv |-> NumVertices(Sh), numEdges |-> ne, numChains |-> nc,
                 chains |-> SeqOf(nc, LAMBDA i : Chain(Sh, i)),
                 edges |-> SeqOf(ne, LAMBDA e : Edge(Sh, e)),
                 pos |-> SeqOf(ne, LAMBDA e : ChainPosition(Sh, e)),
                 chainEdges |-> SeqOf(nc, LAMBDA i : SeqOf(Chain(Sh, i)[2], LAMBDA j : ChainEdge(Sh, i, j))),
                 empty |-> IsEmpty(Sh), full |-> IsFull(Sh),
                 \* the same loops as a LaxPolygon built from the stored vertex order (no reversal)
                 laxEdges |-> IF Sh.kind = "Polygon" THEN SeqOf(ne, LAMBDA e : Edge(LaxOf(Sh), e)) ELSE <<>>,
                 laxChainEdges |-> IF Sh.kind = "Polygon"
                                   THEN SeqOf(nc, LAMBDA i : SeqOf(Chain(Sh, i)[2], LAMBDA j : ChainEdge(LaxOf(Sh), i, j)))
                                   ELSE <<>>])>>)
    ELSE TRUE
=============================================================================
