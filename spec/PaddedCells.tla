---------------------------- MODULE PaddedCells ----------------------------
(***************************************************************************)
(* EXT (C12): s2/paddedcell.go in the discrete cell-grid world of          *)
(* Cells.tla (cells are <<face, path>>; (i, j, orientation) come from S2's *)
(* defining tables PosToIJ / PosToOrientation).                            *)
(*                                                                         *)
(* What is specified, from the documentation of PaddedCell:                *)
(*  - the private coordinates of a padded cell: level, orientation, and    *)
(*    (iLo, jLo) "minimum (i,j)-coordinates of this cell before padding"   *)
(*    in leaf units;                                                       *)
(*  - ChildIJ(pos): "the (i,j) coordinates for the child cell at the given *)
(*    traversal position" = the quadrant the tables assign to pos under    *)
(*    the cell's orientation;                                              *)
(*  - EntryVertex / ExitVertex: "the vertex where the space-filling curve  *)
(*    enters / exits this cell".  DEFINED here as the corner of the cell   *)
(*    occupied by its first / last descendants two levels down, not by the *)
(*    orientation case split of the code; TLC proves that this is the      *)
(*    corner of the pos-0 / pos-3 quadrant and that the curve is           *)
(*    continuous (exit of child k = entry of child k+1, entry of the cell  *)
(*    = entry of child 0, exit = exit of child 3);                         *)
(*  - PaddedCellFromParentIJ(parent, i, j) is the child in quadrant (i,j); *)
(*  - Middle(): "the rectangle in the middle of this cell that belongs to  *)
(*    all four of its children" (checked by the harness on the real uv     *)
(*    bounds of the four padded children: it is their intersection);       *)
(*  - ShrinkToFit(rect): "the smallest CellID that contains all            *)
(*    descendants of this padded cell whose bounds intersect the given     *)
(*    rect".  Predicted for rect = the exact uv bound of a descendant d    *)
(*    and a padding below a quarter of d's width: bounds are closed, so    *)
(*    the descendants that intersect are those within Chebyshev distance 1 *)
(*    of d on d's own level (inside the cell); the answer is their lowest  *)
(*    common ancestor.  It depends only on the cell's orientation and on   *)
(*    the path from the cell to d (ShrinkTab); T_Shrink re-derives it in   *)
(*    absolute coordinates with Cells!ToIJ / ParentIJ.                     *)
(*                                                                         *)
(* Roots: faces and deep anchor cells (CONSTANT Anchors, a sequence of     *)
(* cells).  Model cells: all descendants of a root up to L levels down;    *)
(* ShrinkToFit targets up to D further levels down.                        *)
(***************************************************************************)
EXTENDS Cells, Json

CONSTANTS Anchors,     \* sequence of root cells <<face, path>>
          L,           \* cells up to L levels below the root
          D            \* ShrinkToFit targets up to D levels below the cell

P4(k) == Pow2(2 * k)
RECURSIVE DigitsOf(_, _)
DigitsOf(k, idx) == IF k = 0 THEN <<>> ELSE Append(DigitsOf(k - 1, idx \div 4), idx % 4)
\* relative paths of length <= m, ordered by length and then as base-4 numbers: number t = 1 .. NumT(m)
NumT(m) == (P4(m + 1) - 1) \div 3
Offset(k) == (P4(k) - 1) \div 3
TLen(t) == CHOOSE k \in 0..15 : Offset(k) < t /\ t <= Offset(k + 1)
TPath(t) == DigitsOf(TLen(t), t - 1 - Offset(TLen(t)))
RelPathSet(m) == {TPath(t) : t \in 1..NumT(m)}

VARIABLES root,    \* index into Anchors
          aijo,    \* Cells!IJO of the root (computed once per root)
          q        \* <<>> before a cell is chosen, else <<relative path>>
vars == <<root, aijo, q>>

A == Anchors[root]
ALevel == Level(A)
Has == Len(q) = 1
c == <<A[1], A[2] \o q[1]>>
n == ALevel + Len(q[1])

Init == root \in 1..Len(Anchors) /\ aijo = IJO(Anchors[root]) /\ q = <<>>
Next == /\ q = <<>>
        /\ q' \in {<<r>> : r \in {x \in RelPathSet(L) : ALevel + Len(x) <= MaxLevel}}
        /\ UNCHANGED <<root, aijo>>

\* ---- coordinates ---------------------------------------------------------------
\* (i, j, orientation) of the cell with path r below the current root: Cells!IJO continued from the
\* root's values (T_Under: equal to Cells!IJO of the whole path)
UIJO(r) == IJOFrom(r, 1, aijo[1], aijo[2], aijo[3])
ULevel(r) == ALevel + Len(r)
Quadrant(o, pos) == LET ij == PosToIJ[o + 1][pos + 1] IN <<ij \div 2, ij % 2>>
LeafUnits(v, lev) == v * Pow2(MaxLevel - lev)

\* ---- where the curve enters and leaves ------------------------------------------
\* the corner (ci, cj) in {0,1}^2 of the cell with coordinates a occupied by its descendant with
\* coordinates b, K levels down; <<-1, -1>> if that descendant is not in a corner
CornerFrom(a, b, K) ==
    LET di == b[1] - a[1] * Pow2(K)
        dj == b[2] - a[2] * Pow2(K)
    IN  IF di \in {0, Pow2(K) - 1} /\ dj \in {0, Pow2(K) - 1}
        THEN <<IF di = 0 THEN 0 ELSE 1, IF dj = 0 THEN 0 ELSE 1>> ELSE <<-1, -1>>
Depth(r) == Min(2, MaxLevel - ULevel(r))
\* leaf cells have no descendants: there the corner is the one proved for the orientation (T_Curve)
EntryCorner(r) == IF ULevel(r) = MaxLevel THEN Quadrant(UIJO(r)[3], 0)
                  ELSE CornerFrom(UIJO(r), UIJO(r \o Zeros(Depth(r))), Depth(r))
ExitCorner(r) == IF ULevel(r) = MaxLevel THEN Quadrant(UIJO(r)[3], 3)
                 ELSE CornerFrom(UIJO(r), UIJO(r \o Threes(Depth(r))), Depth(r))
\* a corner of the cell r as a grid point of the level one below the cell
CornerPoint1(r, cr, up) == LET a == UIJO(r) s == IF up THEN 2 ELSE 1 IN <<(a[1] + cr[1]) * s, (a[2] + cr[2]) * s>>

\* ---- ShrinkToFit -----------------------------------------------------------------
\* Inside a cell of orientation o, the descendant with relative path r (k = Len(r)) is the square
\* p = (ri, rj) of the cell's own 2^k x 2^k grid.
RelIJ(o, r) == LET x == IJOFrom(r, 1, 0, 0, o) IN <<x[1], x[2]>>
\* the squares of that grid whose closed squares meet the closed square p
NearRel(k, p) == {y \in {<<p[1] + a, p[2] + b>> : a \in -1..1, b \in -1..1} :
                    y[1] >= 0 /\ y[2] >= 0 /\ y[1] < Pow2(k) /\ y[2] < Pow2(k)}
\* levels (relative to the cell) at which all of S have the same ancestor as p
CommonAt(k, p, S, kk) == \A y \in S : y[1] \div Pow2(k - kk) = p[1] \div Pow2(k - kk)
                                   /\ y[2] \div Pow2(k - kk) = p[2] \div Pow2(k - kk)
LcaLevelRel(k, p, S) == CHOOSE kk \in 0..k : CommonAt(k, p, S, kk) /\ (kk = k \/ ~CommonAt(k, p, S, kk + 1))
ShrinkRel(o, r) ==
    CHOOSE lv \in {LcaLevelRel(Len(r), p, NearRel(Len(r), p)) : p \in {RelIJ(o, r)}} : TRUE
\* the table: orientation -> target number -> level of the answer below the cell (built eagerly, cached)
RECURSIVE ShrinkRow(_, _)
ShrinkRow(o, t) == IF t = 0 THEN <<>> ELSE Append(ShrinkRow(o, t - 1), ShrinkRel(o, TPath(t)))
ShrinkTab == <<ShrinkRow(0, NumT(D)), ShrinkRow(1, NumT(D)), ShrinkRow(2, NumT(D)), ShrinkRow(3, NumT(D))>>

\* the same in absolute coordinates: the level-m cells (m = level of d) of x whose closed squares meet d's
NearAbs(xx, dx) ==
    {y \in {<<dx[1], dx[2], dx[3] + a, dx[4] + b>> : a \in -1..1, b \in -1..1} :
        /\ y[3] >= 0 /\ y[4] >= 0 /\ y[3] < Pow2(dx[2]) /\ y[4] < Pow2(dx[2])
        /\ ParentIJ(y, xx[2]) = xx}
ShrinkLevelAbs(xx, dx) ==
    CHOOSE k \in xx[2]..dx[2] :
        \A S \in {NearAbs(xx, dx)} :
            /\ \A y \in S : ParentIJ(y, k) = ParentIJ(dx, k)
            /\ k = dx[2] \/ \E y \in S : ParentIJ(y, k + 1) # ParentIJ(dx, k + 1)
\* the quick rejection of the documentation: "if rect contains the center of this cell along
\* either axis, then no further shrinking is possible"
TouchesCentreLine(xx, dx) ==
    \/ dx[2] = xx[2]
    \/ LET s == Pow2(dx[2] - xx[2] - 1)       \* half the cell in units of d's level
           ci == (2 * xx[3] + 1) * s  cj == (2 * xx[4] + 1) * s
       IN  ci \in {dx[3], dx[3] + 1} \/ cj \in {dx[4], dx[4] + 1}

Dn == Min(D, MaxLevel - n)

\* ---- theorems (INVARIANTs) ------------------------------------------------------
Q == q[1]
T_Under == Has => UIJO(Q) = IJO(c) /\ ULevel(Q) = Level(c)
T_Curve ==
    (Has /\ n < MaxLevel) =>
      \A en \in {EntryCorner(Q)}, ex \in {ExitCorner(Q)}, o \in {UIJO(Q)[3]} :
      /\ en = Quadrant(o, 0) /\ ex = Quadrant(o, 3)
      /\ en[1] # -1 /\ ex[1] # -1
      \* entry and exit are the two ends of one side of the cell
      /\ (en[1] = ex[1]) # (en[2] = ex[2])
      \* continuity through the children (grid points of level n + 1)
      /\ CornerPoint1(Q, en, TRUE) = CornerPoint1(Append(Q, 0), EntryCorner(Append(Q, 0)), FALSE)
      /\ CornerPoint1(Q, ex, TRUE) = CornerPoint1(Append(Q, 3), ExitCorner(Append(Q, 3)), FALSE)
      /\ \A k \in 0..2 : CornerPoint1(Append(Q, k), ExitCorner(Append(Q, k)), FALSE)
                         = CornerPoint1(Append(Q, k + 1), EntryCorner(Append(Q, k + 1)), FALSE)
T_Children ==
    (Has /\ n < MaxLevel) =>
      \A a \in {UIJO(Q)} :
      /\ {Quadrant(a[3], pos) : pos \in 0..3} = {0, 1} \X {0, 1}
      /\ \A pos \in 0..3 : \A k \in {UIJO(Append(Q, pos))}, ij \in {Quadrant(a[3], pos)} :
               /\ k[1] = 2 * a[1] + ij[1] /\ k[2] = 2 * a[2] + ij[2]
               /\ k[3] = Xor2(a[3], PosToOrientation[pos + 1])
               /\ LeafUnits(k[1], n + 1) = LeafUnits(a[1], n) + ij[1] * Pow2(MaxLevel - n - 1)
               /\ LeafUnits(k[2], n + 1) = LeafUnits(a[2], n) + ij[2] * Pow2(MaxLevel - n - 1)
T_Shrink ==
    Has => \A a \in {UIJO(Q)} : \A xx \in {<<c[1], n, a[1], a[2]>>} : \A t \in 1..NumT(Dn) :
             \A r \in {TPath(t)} : \A b \in {UIJO(Q \o r)}, rel \in {RelIJ(a[3], r)}, k \in {ShrinkTab[a[3] + 1][t]} :
               \A dx \in {<<c[1], n + Len(r), b[1], b[2]>>} :
                 \* the grid inside the cell is the absolute grid
                 /\ b[1] = a[1] * Pow2(Len(r)) + rel[1] /\ b[2] = a[2] * Pow2(Len(r)) + rel[2]
                 /\ n + k = ShrinkLevelAbs(xx, dx)
                 /\ \A pa \in {UIJO(SubSeq(Q \o r, 1, Len(Q) + k))} :              \* path prefixes are ij ancestors
                        <<c[1], n + k, pa[1], pa[2]>> = ParentIJ(dx, n + k)
                 /\ TouchesCentreLine(xx, dx) => k = 0
                 /\ dx \in NearAbs(xx, dx)

\* ---- emission -----------------------------------------------------------------
Emit ==
    IF ~Has THEN TRUE
    ELSE \A ijo \in {UIJO(Q)} :
         PrintT(<<"CASE", ToJson(
            [op |-> "paddedcell", f |-> A[1], anchor |-> A[2], q |-> Q,
             level |-> n, ilo |-> LeafUnits(ijo[1], n), jlo |-> LeafUnits(ijo[2], n), o |-> ijo[3],
             entry |-> EntryCorner(Q), exit |-> ExitCorner(Q),
             quad |-> IF n < MaxLevel THEN [pos \in 1..4 |-> Quadrant(ijo[3], pos - 1)] ELSE <<>>,
             d |-> Dn,
             shrink |-> SubSeq(ShrinkTab[ijo[3] + 1], 1, NumT(Dn))])>>)
=============================================================================
