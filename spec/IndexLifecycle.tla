--------------------------- MODULE IndexLifecycle ---------------------------
(***************************************************************************)
(* C13: answers depend on current geometry and options only, never on the  *)
(* call history.  Three small machines over one abstract scene, written    *)
(* with the implementation's own bookkeeping (status word, pending         *)
(* position, next id, set of indexed shapes, query objects and the epoch   *)
(* at which they were created) so that real executions can be matched      *)
(* field by field:                                                         *)
(*                                                                         *)
(*   Mode = "index": ShapeIndex Add / Build / Reset and the three query    *)
(*                   kinds, each of which first applies pending updates;   *)
(*   Mode = "index-q": the same machine, one long-lived query object of   *)
(*                   each kind reused across removals and rebuilds         *)
(*   Mode = "eq":    one built index, several EdgeQuery objects reused     *)
(*                   for FindEdges / Distance / IsDistanceLess calls;      *)
(*   Mode = "loop":  a large Loop and a Polygon with Invert, point         *)
(*                   containment and a cell query that forces the index.   *)
(*                                                                         *)
(* The specification describes the CORRECT behaviour: a query's answer is  *)
(* a function of (shapes currently held, inversion parity, the options the *)
(* caller set, the target).  With AsImplemented = TRUE it transcribes what *)
(* the pinned code does in Reset, findEdge and IsDistanceLess; on that     *)
(* variant TLC finds the shortest histories violating AnswerIsFunction.    *)
(***************************************************************************)
EXTENDS Integers, Sequences, FiniteSets, FiniteSetsExt, TLC, Json

CONSTANTS Mode, MaxLen, AsImplemented,
          Catalog      \* the shape names that may be added in this run (subset of ShapeNames)

\* ------------------------------------------------------------- the scene
ShapeNames == {"S1", "S2", "S3", "SF"}             \* SF: the full polygon (interior, no edges)
NumEdgesOf == [S1 |-> 4, S2 |-> 40, S3 |-> 8, SF |-> 0]   \* S2 puts the index above the brute-force size
Points == {"P0", "P1", "P2", "P3"}              \* Pk = centre of Sk, P0 outside everything
CentreOf == [S1 |-> "P1", S2 |-> "P2", S3 |-> "P3", SF |-> "*"]    \* SF contains every point
QEdges == {"E1", "E2", "E3"}                    \* Ek passes straight through Sk (2 crossings)
CrossedBy == [E1 |-> "S1", E2 |-> "S2", E3 |-> "S3"]
Inf == 1000000
BruteForceLimit == 30

RangeOf(s) == {s[i] : i \in DOMAIN s}
TotalEdges(present) == SumSet({NumEdgesOf[s] * 1000 + (IF s = "S1" THEN 1 ELSE IF s = "S2" THEN 2 ELSE IF s = "S3" THEN 3 ELSE 4) : s \in present}) \div 1000
Min2(a, b) == IF a < b THEN a ELSE b

\* ------------------------------------------------------------- variables
VARIABLES
    shapes,     \* sequence of shape names in id order (id = position - 1); "-" = removed
    nextID, pendPos, status, indexed,   \* ShapeIndex bookkeeping; indexed = ids in the cell map
    epoch,      \* incremented by every mutation of the index
    cpq, ceq,   \* epoch at which the ContainsPointQuery / CrossingEdgeQuery was created, -1 = none
    eff,        \* eq mode: options currently held by each EdgeQuery object
    inv,        \* loop mode: inversion parity per object
    lidx,       \* loop mode: per object [status, pendPos, indexed]
    tgrown,     \* eq mode: the targets whose ShapeIndex target has been given another point
    h           \* history
vars == <<shapes, nextID, pendPos, status, indexed, epoch, cpq, ceq, eff, inv, lidx, tgrown, h>>

Live == {i \in 1..Len(shapes) : shapes[i] # "-"}
LiveIds == {i - 1 : i \in Live}
Present == {shapes[i] : i \in Live}
NumLive == Cardinality(Live)

St == [status |-> status, pend |-> pendPos, next |-> nextID, n |-> NumLive,
       indexed |-> indexed]
Log(e) == Append(h, e)

\* pending updates are applied by every operation that touches the cell map

\* ===================================================================== index
Add(s) ==
    /\ s \in Catalog /\ s \notin Present
    /\ shapes' = Append(shapes, s) /\ nextID' = nextID + 1 /\ status' = "stale"
    /\ epoch' = epoch + 1
    /\ UNCHANGED <<pendPos, indexed, cpq, ceq, eff, inv, lidx, tgrown>>
    /\ h' = Log([a |-> "Add", x |-> s, r |-> "-",
                 st |-> [status |-> "stale", pend |-> pendPos, next |-> nextID + 1, n |-> NumLive + 1, indexed |-> indexed]])

MaybeApplyVars ==
    /\ status' = "fresh" /\ pendPos' = nextID /\ indexed' = LiveIds
StAfterApply == [status |-> "fresh", pend |-> nextID, next |-> nextID, n |-> NumLive,
                 indexed |-> LiveIds]

Build ==
    /\ MaybeApplyVars
    /\ UNCHANGED <<shapes, nextID, epoch, cpq, ceq, eff, inv, lidx, tgrown>>
    /\ h' = Log([a |-> "Build", x |-> "-", r |-> "-", st |-> StAfterApply])

Reset ==
    /\ shapes' = <<>> /\ nextID' = 0 /\ status' = "fresh" /\ indexed' = {}
    /\ pendPos' = IF AsImplemented THEN pendPos ELSE 0
    /\ epoch' = epoch + 1
    /\ UNCHANGED <<cpq, ceq, eff, inv, lidx, tgrown>>
    /\ h' = Log([a |-> "Reset", x |-> "-", r |-> "-",
                 st |-> [status |-> "fresh", pend |-> 0, next |-> 0, n |-> 0, indexed |-> {}]])

\* Remove deletes the shape at once; if its edges are already in the cell map the removal is
\* queued and the index becomes stale (the cell map still lists the shape until the next update).
PosOf(s) == CHOOSE i \in Live : shapes[i] = s
Remove(s) ==
    /\ s \in Present
    /\ LET i == PosOf(s)
           queued == (i - 1) < pendPos
       IN  /\ shapes' = [shapes EXCEPT ![i] = "-"]
           /\ status' = IF queued THEN "stale" ELSE status
           /\ epoch' = epoch + 1
           /\ UNCHANGED <<nextID, pendPos, indexed, cpq, ceq, eff, inv, lidx, tgrown>>
           /\ h' = Log([a |-> "Remove", x |-> s, r |-> "-",
                        st |-> [status |-> IF queued THEN "stale" ELSE status, pend |-> pendPos, next |-> nextID,
                                n |-> NumLive - 1, indexed |-> indexed]])

NewCPQ ==
    /\ MaybeApplyVars /\ cpq' = epoch
    /\ UNCHANGED <<shapes, nextID, epoch, ceq, eff, inv, lidx, tgrown>>
    /\ h' = Log([a |-> "NewCPQ", x |-> "-", r |-> "-", st |-> StAfterApply])
NewCEQ ==
    /\ MaybeApplyVars /\ ceq' = epoch
    /\ UNCHANGED <<shapes, nextID, epoch, cpq, eff, inv, lidx, tgrown>>
    /\ h' = Log([a |-> "NewCEQ", x |-> "-", r |-> "-", st |-> StAfterApply])

\* the answers: functions of the shapes currently held only
ContainsAns(p) == {s \in Present : s = "SF" \/ CentreOf[s] = p}
CrossAns(e) == IF CrossedBy[e] \in Present THEN 2 ELSE 0
\* the same question asked of one shape at a time (CrossingEdgeQuery.Crossings with a shape argument):
\* the long-lived query object must find the shape under whatever id it has now
CrossPerShape(e) == [s \in Present \ {"SF"} |-> IF CrossedBy[e] = s THEN 2 ELSE 0]
FindAllAns == TotalEdges(Present)

\* A query object created in an earlier epoch may be reused once the index is fresh again
\* (its iterator re-seeks in the current cell map on every call); the query itself does not
\* apply pending updates, so it is only used while the index is fresh.
Contains(p) ==
    /\ cpq # -1 /\ status = "fresh"
    /\ UNCHANGED <<shapes, nextID, pendPos, status, indexed, epoch, cpq, ceq, eff, inv, lidx, tgrown>>
    /\ h' = Log([a |-> "Contains", x |-> p, r |-> ContainsAns(p), st |-> St])
Cross(e) ==
    /\ ceq # -1 /\ status = "fresh"
    /\ UNCHANGED <<shapes, nextID, pendPos, status, indexed, epoch, cpq, ceq, eff, inv, lidx, tgrown>>
    /\ h' = Log([a |-> "Cross", x |-> e, r |-> CrossAns(e), per |-> CrossPerShape(e), st |-> St])
\* a fresh EdgeQuery (interiors excluded, all results): touches the cell map only on the optimized path
FindAll(p) ==
    /\ IF TotalEdges(Present) > BruteForceLimit
       THEN MaybeApplyVars
       ELSE UNCHANGED <<status, pendPos, indexed, tgrown>>
    /\ UNCHANGED <<shapes, nextID, epoch, cpq, ceq, eff, inv, lidx, tgrown>>
    /\ h' = Log([a |-> "FindAll", x |-> p, r |-> FindAllAns,
                 st |-> IF TotalEdges(Present) > BruteForceLimit THEN StAfterApply ELSE St])

\* distance from a point with interiors included (a fresh EdgeQuery, but a point target object that
\* the caller keeps and reuses through the whole history): zero iff a shape held now contains the
\* point.  The interior step looks the point up in the cell map, so it applies pending updates.
DistInAns(p) == IF \E s \in Present : s = "SF" \/ CentreOf[s] = p THEN "zero"
                ELSE IF TotalEdges(Present) = 0 THEN "inf" ELSE "pos"
DistIn(p) ==
    /\ MaybeApplyVars
    /\ UNCHANGED <<shapes, nextID, epoch, cpq, ceq, eff, inv, lidx, tgrown>>
    /\ h' = Log([a |-> "DistIn", x |-> p, r |-> DistInAns(p), st |-> StAfterApply])

IndexNext ==
    \/ \E s \in ShapeNames : Add(s) \/ Remove(s)
    \/ Build \/ Reset \/ NewCPQ \/ NewCEQ
    \/ \E p \in Points : Contains(p)
    \/ \E e \in QEdges : Cross(e)
    \/ \E p \in {"P0", "P2"} : FindAll(p)
    \/ \E p \in {"P1", "P2"} : DistIn(p)

\* Mode = "index-q": the life of one CrossingEdgeQuery and one ContainsPointQuery object.  Each is
\* created once and then reused while shapes are removed, added again (the same shape object gets
\* a new id) and the index is rebuilt.
\* Only the query points and edges that concern the catalogue are used, so that short exhaustive
\* explorations reach: query, remove, add again, rebuild, query.  Mode = "index-ceq" leaves out the
\* ContainsPointQuery, Mode = "index-cpq" the CrossingEdgeQuery.
PointsQ == {p \in Points : \E s \in Catalog \ {"SF"} : CentreOf[s] = p}
QEdgesQ == {e \in QEdges : CrossedBy[e] \in Catalog}
IndexQNext ==
    \/ \E s \in ShapeNames : Add(s) \/ Remove(s)
    \/ Build \/ Reset
    \/ Mode \in {"index-q", "index-cpq"} /\ cpq = -1 /\ NewCPQ
    \/ Mode \in {"index-q", "index-ceq"} /\ ceq = -1 /\ NewCEQ
    \/ Mode \in {"index-q", "index-cpq"} /\ \E p \in PointsQ : Contains(p)
    \/ Mode \in {"index-q", "index-ceq"} /\ \E e \in QEdgesQ : Cross(e)

\* ======================================================================== eq
\* index = {S1, S2} built.  Query objects with user options (maxResults, limit).
\* Q4: at most 3 results with a permitted error, used with ShapeIndex targets (one point at
\* the named position): this is the configuration in which the search keeps a set of already
\* tested edges, per-call scratch state that must not survive the call.
\* Q5: exact search (no permitted error) with ShapeIndex targets: a target object reused after a
\* threshold call must not keep the error that call permitted.
\* F1, F2: furthest-edge queries (F1 with point targets, F2 with ShapeIndex targets), no limit, all
\* results.  Their threshold call is IsDistanceGreater: with two shapes on different cube faces some
\* edge is always further than "near" from any target, and nothing is further than 180 degrees.
Queries == {"Q1", "Q2", "Q3", "Q4", "Q5", "F1", "F2"}
Furthest == {"F1", "F2"}
UserOpts == [Q1 |-> [max |-> Inf, limit |-> "inf"],
             Q2 |-> [max |-> 3, limit |-> "inf"],
             Q3 |-> [max |-> Inf, limit |-> "near"],
             Q4 |-> [max |-> 3, limit |-> "inf"],
             Q5 |-> [max |-> Inf, limit |-> "inf"],
             F1 |-> [max |-> Inf, limit |-> "inf"],
             F2 |-> [max |-> Inf, limit |-> "inf"]]
Targets == {"P0", "P1", "P2", "P3"}
\* The indexed geometry can be replaced (EdgeQuery.Reset on every query object, ShapeIndex.Reset,
\* new shapes): the variable epoch counts the replacements, even = {S1,S2}, odd = {S2,S3}.
EqPresent == IF epoch % 2 = 0 THEN {"S1", "S2"} ELSE {"S2", "S3"}
\* number of edges within the limit of the target
InRange(t, limit) ==
    IF limit = "inf" \/ limit = "far" THEN TotalEdges(EqPresent)
    ELSE IF t \in {"P0", "PG"} THEN 0
    ELSE LET s == CHOOSE x \in ShapeNames : CentreOf[x] = t
         IN  IF s \in EqPresent THEN NumEdgesOf[s] ELSE 0

FindEdgesAns(o, t) == Min2(o.max, InRange(t, o.limit))
DistanceAns(o, t) == IF InRange(t, o.limit) = 0 THEN "inf" ELSE "pos"
IsLessAns(t, d) == InRange(t, d) > 0
\* A ShapeIndex target is an index of its own, and the caller may add to it between calls
\* (GrowTarget adds a point at the centre of S2, which every epoch holds, and builds the target
\* index).  Queries that use ShapeIndex targets must see the grown target at once.
IndexTargetQueries == {"Q4", "Q5", "F2"}
IsLessAnsQ(q, t, d) == IsLessAns(t, d) \/ (q \in IndexTargetQueries /\ t \in tgrown /\ d = "near")

Opts(q) == IF AsImplemented THEN eff[q] ELSE UserOpts[q]

FindEdges(q, t) ==
    /\ UNCHANGED <<shapes, nextID, pendPos, status, indexed, epoch, cpq, ceq, eff, inv, lidx, tgrown>>
    /\ h' = Log([a |-> "FindEdges", q |-> q, x |-> t, r |-> FindEdgesAns(Opts(q), t), eff |-> Opts(q)])
Distance(q, t) ==
    /\ eff' = IF AsImplemented THEN [eff EXCEPT ![q].max = 1] ELSE eff
    /\ UNCHANGED <<shapes, nextID, pendPos, status, indexed, epoch, cpq, ceq, inv, lidx, tgrown>>
    /\ h' = Log([a |-> "Distance", q |-> q, x |-> t, r |-> DistanceAns(Opts(q), t), eff |-> UserOpts[q]])
IsDistanceLess(q, t, d) ==
    /\ eff' = IF AsImplemented THEN [eff EXCEPT ![q] = [max |-> 1, limit |-> d]] ELSE eff
    /\ UNCHANGED <<shapes, nextID, pendPos, status, indexed, epoch, cpq, ceq, inv, lidx, tgrown>>
    /\ h' = Log([a |-> "IsDistanceLess", q |-> q, x |-> t, d |-> d,
                 r |-> IF q \in Furthest THEN d = "near" ELSE IsLessAnsQ(q, t, d), eff |-> UserOpts[q]])

SwitchGeo ==
    /\ epoch' = epoch + 1
    /\ UNCHANGED <<shapes, nextID, pendPos, status, indexed, cpq, ceq, eff, inv, lidx, tgrown>>
    /\ h' = Log([a |-> "SwitchGeo", q |-> "-", x |-> "-", r |-> "-"])

GrowTarget(t) ==
    /\ t \notin tgrown /\ tgrown' = tgrown \cup {t}
    /\ UNCHANGED <<shapes, nextID, pendPos, status, indexed, epoch, cpq, ceq, eff, inv, lidx>>
    /\ h' = Log([a |-> "GrowTarget", q |-> "-", x |-> t, r |-> "-"])

\* Mode = "eq-grow": only the queries that use ShapeIndex targets, on the two targets that can grow
EqQueries == IF Mode = "eq-grow" THEN IndexTargetQueries ELSE Queries
\* "PG" is a target used in this mode only: its index starts with a single point near P0 (far from every
\* shape), so that its bounding cap is small and the added point lies far outside it
EqTargets == IF Mode = "eq-grow" THEN {"PG", "P1"} ELSE Targets
EqNext ==
    \/ \E t \in EqTargets \cap {"PG", "P1"} : GrowTarget(t)
    \/ \E q \in EqQueries, t \in EqTargets :
          \/ FindEdges(q, t) \/ Distance(q, t)
          \/ \E d \in {"near", "far"} : IsDistanceLess(q, t, d)
    \/ Mode # "eq-grow" /\ SwitchGeo

\* ====================================================================== loop
Objs == {"L", "PG", "PG2"}   \* PG: shell with a hole; PG2: two disjoint shells, the smaller one first
LPoints == {"in", "out", "hole"}
\* containment before any inversion: "hole" is the centre of PG's hole (outside PG, inside L)
\* and, for PG2, the centre of its second shell (inside)
Base(o, p) == IF p = "in" THEN TRUE ELSE IF p = "out" THEN FALSE ELSE (o # "PG")
LoopContainsAns(o, p) == IF inv[o] = 0 THEN Base(o, p) ELSE ~Base(o, p)

Invert(o) ==
    /\ inv' = [inv EXCEPT ![o] = 1 - inv[o]]
    \* Invert resets the index and re-adds the object: one shape, nothing indexed, stale
    /\ lidx' = [lidx EXCEPT ![o] = [status |-> "stale",
                                    pend |-> IF AsImplemented THEN lidx[o].pend ELSE 0,
                                    indexed |-> {}]]
    /\ UNCHANGED <<shapes, nextID, pendPos, status, indexed, epoch, cpq, ceq, eff, tgrown>>
    /\ h' = Log([a |-> "Invert", o |-> o, x |-> "-", r |-> "-",
                 st |-> [status |-> "stale", pend |-> 0, indexed |-> {}]])
LFresh == [status |-> "fresh", pend |-> 1, indexed |-> {0}]
\* ContainsPoint answers from the bounding rectangle alone, without touching the index,
\* when the index is not fresh and the point is outside the bound (the "out" point while
\* the object is not inverted; an inverted object's bound is the full rectangle).
BoundRejects(o, p) == lidx[o].status = "stale" /\ p = "out" /\ inv[o] = 0
LContains(o, p) ==
    /\ lidx' = IF BoundRejects(o, p) THEN lidx ELSE [lidx EXCEPT ![o] = LFresh]
    /\ UNCHANGED <<shapes, nextID, pendPos, status, indexed, epoch, cpq, ceq, eff, inv, tgrown>>
    /\ h' = Log([a |-> "LContains", o |-> o, x |-> p, r |-> LoopContainsAns(o, p),
                 st |-> IF BoundRejects(o, p) THEN lidx[o] ELSE LFresh])
\* a cell query (ContainsCell of a small cell around the point) also forces the index
LContainsCell(o, p) ==
    /\ lidx' = [lidx EXCEPT ![o] = LFresh]
    /\ UNCHANGED <<shapes, nextID, pendPos, status, indexed, epoch, cpq, ceq, eff, inv, tgrown>>
    /\ h' = Log([a |-> "LContainsCell", o |-> o, x |-> p, r |-> LoopContainsAns(o, p), st |-> LFresh])

LoopNext ==
    \E o \in Objs :
        \/ Invert(o)
        \/ \E p \in LPoints : LContains(o, p) \/ LContainsCell(o, p)

\* ========================================================================
Init ==
    /\ shapes = <<>> /\ nextID = 0 /\ pendPos = 0 /\ status = "fresh" /\ indexed = {}
    \* Mode = "eq1": the eq machine after one replacement of the geometry ({S2, S3} indexed); the
    \* replacement is the first step of every history, so short exhaustive explorations cover both.
    /\ epoch = IF Mode = "eq1" THEN 1 ELSE 0
    /\ cpq = -1 /\ ceq = -1
    /\ eff = UserOpts
    /\ inv = [o \in Objs |-> 0]
    /\ lidx = [o \in Objs |-> [status |-> "stale", pend |-> 0, indexed |-> {}]]
    /\ tgrown = {}
    /\ h = IF Mode = "eq1" THEN <<[a |-> "SwitchGeo", q |-> "-", x |-> "-", r |-> "-"]>> ELSE <<>>

Finish ==
    /\ Len(h) = MaxLen
    /\ PrintT(<<"HIST", ToJson([op |-> "c13." \o (IF Mode \in {"index-q", "index-ceq", "index-cpq"} THEN "index" ELSE IF Mode \in {"eq1", "eq-grow"} THEN "eq" ELSE Mode), steps |-> h])>>)
    /\ UNCHANGED vars

Next ==
    \/ /\ Len(h) < MaxLen
       /\ \/ Mode = "index" /\ IndexNext
          \/ Mode \in {"index-q", "index-ceq", "index-cpq"} /\ IndexQNext
          \/ Mode \in {"eq", "eq1", "eq-grow"} /\ EqNext
          \/ Mode = "loop" /\ LoopNext
    \/ Finish

\* ---- the property, as invariants of the specification ------------------------
\* (1) bookkeeping: whenever the index is fresh, exactly the shapes held are indexed
FreshMeansComplete == status = "fresh" => (indexed = LiveIds /\ pendPos = nextID)
\* (2) every logged answer is the function of the current abstract state: for the
\*     correct specification this holds by construction; on the AsImplemented variant
\*     TLC reports the shortest history where the implementation's answer differs.
LastAnswerOK ==
    Len(h) = 0 \/
    LET e == h[Len(h)]
    IN  CASE e.a = "FindEdges" -> e.r = FindEdgesAns(UserOpts[e.q], e.x)
          [] e.a = "Distance" -> e.r = DistanceAns(UserOpts[e.q], e.x)
          [] e.a = "Contains" -> e.r = ContainsAns(e.x)
          [] OTHER -> TRUE
PendNeverAhead == pendPos <= nextID
LoopPendOK == \A o \in Objs : lidx[o].status = "stale" => lidx[o].pend = 0
=============================================================================
