------------------------------- MODULE Shapes -------------------------------
(***************************************************************************)
(* The Shape chain contract (s2/shape.go) over abstract shapes.            *)
(*                                                                         *)
(* An abstract shape is a record [kind, vc, holes]:                        *)
(*   vc    = number of vertices of each input component (a point set, a    *)
(*           vertex sequence, or the loops of a polygon in polygon order); *)
(*   holes = per component: the loop is a hole of a Polygon (its edges are *)
(*           traversed in reverse so that the interior stays on the left). *)
(* Vertices are numbered 0..V-1 component after component; an edge is a    *)
(* pair of vertex numbers, so that the harness can build the real shape    *)
(* from V pairwise distinct points and compare edges by identity.          *)
(*                                                                         *)
(* What each kind promises (documentation of the types / of S2Shape):      *)
(*   PointVector  n points: n degenerate edges, n chains of length 1       *)
(*   Polyline     n vertices: max(0,n-1) edges, one chain unless no edge   *)
(*   LaxPolyline  same                                                     *)
(*   LaxLoop      n vertices: n edges closing up, min(1,n) chains          *)
(*   LaxPolygon   one closed chain per loop (a loop of 0 vertices is the   *)
(*                full loop: a chain of length 0)                          *)
(*   Loop         n >= 3 vertices: as LaxLoop; EmptyLoop: no chain;        *)
(*                FullLoop: one chain of length 0                          *)
(*   Polygon      one closed chain per loop, holes reversed; EmptyPolygon: *)
(*                no chain; FullPolygon: one chain of length 0             *)
(***************************************************************************)
EXTENDS Integers, Sequences, FiniteSets, TLC

SingleKinds == {"PointVector", "Polyline", "LaxPolyline", "LaxLoop", "Loop"}
SpecialKinds == {"EmptyLoop", "FullLoop", "EmptyPolygon", "FullPolygon"}
MultiKinds == {"LaxPolygon", "Polygon"}
Kinds == SingleKinds \cup SpecialKinds \cup MultiKinds

RECURSIVE SumTo(_, _)
SumTo(s, k) == IF k = 0 THEN 0 ELSE s[k] + SumTo(s, k - 1)     \* s[1] + ... + s[k]
Sum(s) == SumTo(s, Len(s))
MinI(a, b) == IF a < b THEN a ELSE b
MaxI(a, b) == IF a > b THEN a ELSE b

\* ---- well-formed abstract shapes ------------------------------------------
WellFormed(sh) ==
    /\ sh.kind \in Kinds
    /\ Len(sh.holes) = Len(sh.vc)
    /\ sh.kind \in SingleKinds => Len(sh.vc) = 1
    /\ sh.kind = "Loop" => sh.vc[1] >= 3
    /\ sh.kind \in {"EmptyLoop", "EmptyPolygon"} => sh.vc = <<>>
    /\ sh.kind \in {"FullLoop", "FullPolygon"} => sh.vc = <<0>>
    /\ sh.kind = "Polygon" => Len(sh.vc) >= 1 /\ \A i \in 1..Len(sh.vc) : sh.vc[i] >= 3
    /\ sh.kind # "Polygon" => \A i \in 1..Len(sh.vc) : ~sh.holes[i]

Dimension(sh) ==
    CASE sh.kind = "PointVector" -> 0
      [] sh.kind \in {"Polyline", "LaxPolyline"} -> 1
      [] OTHER -> 2

NumVertices(sh) == Sum(sh.vc)

\* chain lengths, one entry per chain (0-based chain i is entry i+1)
ChainLens(sh) ==
    CASE sh.kind = "PointVector" -> [i \in 1..sh.vc[1] |-> 1]
      [] sh.kind \in {"Polyline", "LaxPolyline"} ->
            IF sh.vc[1] >= 2 THEN <<sh.vc[1] - 1>> ELSE <<>>
      [] sh.kind = "LaxLoop" -> IF sh.vc[1] >= 1 THEN <<sh.vc[1]>> ELSE <<>>
      [] OTHER -> sh.vc      \* Loop, LaxPolygon, Polygon, the special shapes

NumChains(sh) == Len(ChainLens(sh))
NumEdges(sh) == Sum(ChainLens(sh))
\* Chain(i), 0-based: <<start, length>>
Chain(sh, i) == << SumTo(ChainLens(sh), i), ChainLens(sh)[i + 1] >>

\* first vertex number of the component that carries chain i
Base(sh, i) ==
    IF sh.kind = "PointVector" THEN i ELSE SumTo(sh.vc, i)

\* vertex number of position k (taken modulo the loop length) of chain i of a closed chain
Orient(sh, i, k) ==
    LET n == sh.vc[i + 1]
        kk == k % n
    IN  Base(sh, i) + (IF sh.holes[i + 1] THEN n - 1 - kk ELSE kk)

\* ChainEdge(i, j), 0-based, 0 <= j < Chain(i).length: <<v0, v1>>
ChainEdge(sh, i, j) ==
    CASE sh.kind = "PointVector" -> << i, i >>
      [] sh.kind \in {"Polyline", "LaxPolyline"} -> << j, j + 1 >>
      [] OTHER -> << Orient(sh, i, j), Orient(sh, i, j + 1) >>

\* ChainPosition(e): the chain that holds edge e and the offset in it
ChainOf(sh, e) == CHOOSE i \in 0..(NumChains(sh) - 1) :
                      Chain(sh, i)[1] <= e /\ e < Chain(sh, i)[1] + Chain(sh, i)[2]
ChainPosition(sh, e) == << ChainOf(sh, e), e - Chain(sh, ChainOf(sh, e))[1] >>

\* Edge(e): defined through the chains - a shape has one edge set
Edge(sh, e) == LET cp == ChainPosition(sh, e) IN ChainEdge(sh, cp[1], cp[2])

IsEmpty(sh) == NumEdges(sh) = 0 /\ (Dimension(sh) < 2 \/ NumChains(sh) = 0)
IsFull(sh) == NumEdges(sh) = 0 /\ Dimension(sh) = 2 /\ NumChains(sh) > 0

\* ---- the contract laws (model-level theorems) ---------------------------------
EdgeIds(sh) == 0..(NumEdges(sh) - 1)
ChainIds(sh) == 0..(NumChains(sh) - 1)

\* chains are contiguous, in order, and cover exactly the edge ids
LawChainsPartition(sh) ==
    /\ \A i \in ChainIds(sh) : Chain(sh, i)[1] = (IF i = 0 THEN 0 ELSE Chain(sh, i - 1)[1] + Chain(sh, i - 1)[2])
    /\ NumChains(sh) > 0 =>
         Chain(sh, NumChains(sh) - 1)[1] + Chain(sh, NumChains(sh) - 1)[2] = NumEdges(sh)
    /\ NumChains(sh) = 0 => NumEdges(sh) = 0

\* chain positions invert chain lookup
LawPositionInverse(sh) ==
    /\ \A e \in EdgeIds(sh) :
         LET cp == ChainPosition(sh, e)
         IN  /\ cp[1] \in ChainIds(sh)
             /\ 0 <= cp[2] /\ cp[2] < Chain(sh, cp[1])[2]
             /\ Chain(sh, cp[1])[1] + cp[2] = e
    /\ \A i \in ChainIds(sh) : \A j \in 0..(Chain(sh, i)[2] - 1) :
         ChainPosition(sh, Chain(sh, i)[1] + j) = <<i, j>>

\* the two enumerations of the edges coincide
LawOneEdgeSet(sh) ==
    \A i \in ChainIds(sh) : \A j \in 0..(Chain(sh, i)[2] - 1) :
        ChainEdge(sh, i, j) = Edge(sh, Chain(sh, i)[1] + j)

\* edges of a chain are connected; chains of a 2-dimensional shape close up;
\* points are degenerate edges; every edge joins vertices of the shape
LawConnected(sh) ==
    /\ \A e \in EdgeIds(sh) : Edge(sh, e)[1] \in 0..(NumVertices(sh) - 1) /\ Edge(sh, e)[2] \in 0..(NumVertices(sh) - 1)
    /\ \A i \in ChainIds(sh) : \A j \in 0..(Chain(sh, i)[2] - 1) :
         LET n == Chain(sh, i)[2]
         IN  CASE Dimension(sh) = 0 -> ChainEdge(sh, i, j)[1] = ChainEdge(sh, i, j)[2]
               [] Dimension(sh) = 1 -> j + 1 < n => ChainEdge(sh, i, j)[2] = ChainEdge(sh, i, j + 1)[1]
               [] OTHER -> ChainEdge(sh, i, j)[2] = ChainEdge(sh, i, (j + 1) % n)[1]

\* every vertex of a closed shape is the start of exactly one edge (and the end of exactly one)
LawVerticesOnce(sh) ==
    Dimension(sh) = 2 =>
        \A v \in 0..(NumVertices(sh) - 1) :
            /\ Cardinality({e \in EdgeIds(sh) : Edge(sh, e)[1] = v}) = 1
            /\ Cardinality({e \in EdgeIds(sh) : Edge(sh, e)[2] = v}) = 1

LawEmptyFull(sh) == ~(IsEmpty(sh) /\ IsFull(sh)) /\ (NumEdges(sh) > 0 => ~IsEmpty(sh) /\ ~IsFull(sh))

Laws(sh) == /\ LawChainsPartition(sh) /\ LawPositionInverse(sh) /\ LawOneEdgeSet(sh)
            /\ LawConnected(sh) /\ LawVerticesOnce(sh) /\ LawEmptyFull(sh)
=============================================================================
