------------------------------- MODULE Approx -------------------------------
(***************************************************************************)
(* C20: approximation operators stay within the tolerance they declare.    *)
(*                                                                         *)
(* TLC cannot measure a distance.  What it decides:                        *)
(*  - the enumeration of the configurations (Gen_Approx) with the exact    *)
(*    integer classification of every lattice edge (crosses the equator,   *)
(*    crosses the antimeridian, same absolute latitude, longer than 90     *)
(*    degrees, on a meridian, endpoint at a pole);                         *)
(*  - for every recorded event, order relations between floats that the    *)
(*    library itself reported (distances measured with the library's own   *)
(*    functions) and the declared tolerance / snap radius, and the         *)
(*    discrete clauses (indices increasing, endpoints kept, no equal       *)
(*    neighbours, snapped point is a site of the declared grid).           *)
(* The tessellator's promise (doc comment of EdgeTessellator): the maximum *)
(* distance, measured on the sphere, between the original edge and the     *)
(* output chain is at most the tolerance.  Projected output: every point   *)
(* of the planar chain, mapped back with Unproject, is within tolerance of *)
(* the geodesic input edge (DistanceFromSegment).  Unprojected output:     *)
(* every point of the planar input edge, mapped to the sphere, is within   *)
(* tolerance of the geodesic output chain.                                 *)
(***************************************************************************)
EXTENDS Bounds

\* ---- exact classification of a lattice edge (a, b), a and b not parallel
CrossesEquator(a, b) == a[3] * b[3] < 0
TouchesEquator(a, b) == a[3] = 0 \/ b[3] = 0
\* the edge meets the half plane y = 0, x < 0 in its interior: the endpoints are on different
\* sides of the plane y = 0 and the crossing point |b.y|*a + |a.y|*b has negative x
CrossesAntimeridian(a, b) ==
    /\ a[2] * b[2] < 0
    /\ Abs(b[2]) * a[1] + Abs(a[2]) * b[1] < 0
\* an endpoint on the antimeridian (longitude exactly 180 degrees)
TouchesAntimeridian(a, b) == (a[2] = 0 /\ a[1] < 0) \/ (b[2] = 0 /\ b[1] < 0)
SameAbsLatitude(a, b) == a[3] * a[3] * Norm2(b) = b[3] * b[3] * Norm2(a)
LongEdge(a, b) == Dot(a, b) < 0
OnMeridian(a, b) == a[1] * b[2] - a[2] * b[1] = 0
IsPole(a) == a[1] = 0 /\ a[2] = 0
PoleEndpoint(a, b) == IsPole(a) \/ IsPole(b)
\* the edge passes through a pole: endpoints on opposite meridians of one meridian plane
ThroughPole(a, b) == OnMeridian(a, b) /\ (a[1] * b[1] + a[2] * b[2] < 0)

EdgeClass(a, b) ==
    (IF CrossesEquator(a, b) THEN {"equator"} ELSE {})
    \cup (IF CrossesAntimeridian(a, b) \/ TouchesAntimeridian(a, b) THEN {"antimeridian"} ELSE {})
    \cup (IF SameAbsLatitude(a, b) THEN {"same-abs-lat"} ELSE {})
    \cup (IF LongEdge(a, b) THEN {"long"} ELSE {})
    \cup (IF OnMeridian(a, b) THEN {"meridian"} ELSE {})
    \cup (IF PoleEndpoint(a, b) \/ ThroughPole(a, b) THEN {"pole"} ELSE {})

\* ---- relations on recorded events
AllLeq(seq, thr) == \A k \in 1..Len(seq) : FLeq(seq[k], thr)
StrictlyIncreasing(idx) == \A k \in 1..(Len(idx) - 1) : idx[k] < idx[k + 1]
NoEqualNeighbours(idx, vid) == \A k \in 1..(Len(idx) - 1) : vid[idx[k] + 1] # vid[idx[k + 1] + 1]
=============================================================================
