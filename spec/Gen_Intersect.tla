---------------------------- MODULE Gen_Intersect ---------------------------
(***************************************************************************)
(* C16, world W1: every quadruple (a,b,c,d) of lattice points whose edges  *)
(* ab and cd CROSS (exact crossing test with the symbolic perturbation,    *)
(* Exact!CrossingSign), including edges that only touch at an endpoint and *)
(* exactly collinear overlapping edges.  For each the specification gives  *)
(*   - D = (a x b) x (c x d), the exact direction of the line in which the *)
(*     two planes meet (integer vector),                                   *)
(*   - X = s*D, the representative that lies on both arcs,                  *)
(*   - for D = 0 (all four points on one great circle) the endpoint that   *)
(*     intersectionExact documents: of the endpoints lying strictly inside *)
(*     the other edge, the lexicographically smallest.                      *)
(***************************************************************************)
EXTENDS Exact, Json

CONSTANT AIdx     \* indices of first points (partition of the work)
CONSTANT SubIdx   \* indices of the other points
PtSeq == SetToSortSeq(Pts, LexLess)
Sub == {PtSeq[i] : i \in SubIdx \cap (1..Len(PtSeq))}
ASub == {PtSeq[i] : i \in AIdx \cap (1..Len(PtSeq))}

\* distinct lattice points with the same direction are one point of the sphere
NoCollapse(S) == \A p \in S, r \in S : p # r => ~SameDir(p, r)
Crossing(a, b, c, d) ==
    /\ a # b /\ c # d /\ ~Parallel(a, b) /\ ~Parallel(c, d)
    /\ NoCollapse({a, b, c, d})
    /\ CrossingSign(a, b, c, d) = "CROSS"

VARIABLE q
Init == q \in {<<a>> : a \in ASub}
Next == /\ Len(q) = 1
        /\ q' \in {<<q[1], b, c, d>> : b \in Sub, c \in Sub, d \in Sub}
        /\ Crossing(q'[1], q'[2], q'[3], q'[4])

Full == Len(q) = 4
A == q[1]
B == q[2]
C == q[3]
D == q[4]

Scale(k, v) == <<k * v[1], k * v[2], k * v[3]>>
VAdd(u, v) == <<u[1] + v[1], u[2] + v[2], u[3] + v[3]>>

\* (a x b) x (c x d)
IDir(a, b, c, d) == Cross(Cross(a, b), Cross(c, d))
\* the same vector expanded in a,b and in c,d:
\*   D = Det(c,d,a) * b - Det(c,d,b) * a = Det(a,b,d) * c - Det(a,b,c) * d
CoefOnB(a, b, c, d) == Det(c, d, a)
CoefOnA(a, b, c, d) == -Det(c, d, b)
CoefOnC(a, b, c, d) == Det(a, b, d)
CoefOnD(a, b, c, d) == -Det(a, b, c)
SignOfPair(u, v) == IF u # 0 THEN Sgn(u) ELSE Sgn(v)
\* orientation such that s*D is a non-negative combination of a and b
Orient(a, b, c, d) == SignOfPair(CoefOnB(a, b, c, d), CoefOnA(a, b, c, d))
Orient2(a, b, c, d) == SignOfPair(CoefOnC(a, b, c, d), CoefOnD(a, b, c, d))
XDir(a, b, c, d) == Scale(Orient(a, b, c, d), IDir(a, b, c, d))

\* p lies on the great circle of (c,d), strictly between c and d
InArc(p, c, d) ==
    LET n == Cross(c, d)
    IN  /\ Dot(n, p) = 0
        /\ Dot(Cross(c, p), n) > 0
        /\ Dot(Cross(p, d), n) > 0

\* order of the points after normalisation to unit length: compare p[i]/|p| with r[i]/|r|
CmpUnitCoord(p, r, i) ==
    LET sp == Sgn(p[i]) sr == Sgn(r[i])
    IN  IF sp # sr THEN Sgn(sp - sr)
        ELSE IF sp = 0 THEN 0
        ELSE sp * Sgn(p[i] * p[i] * Norm2(r) - r[i] * r[i] * Norm2(p))
UnitLexLess(p, r) ==
    LET c1 == CmpUnitCoord(p, r, 1) c2 == CmpUnitCoord(p, r, 2) c3 == CmpUnitCoord(p, r, 3)
    IN  c1 < 0 \/ (c1 = 0 /\ (c2 < 0 \/ (c2 = 0 /\ c3 < 0)))

Ends == <<A, B, C, D>>
InArcIdx == {i \in 1..4 : IF i <= 2 THEN InArc(Ends[i], C, D) ELSE InArc(Ends[i], A, B)}
MinIdx(S, Less(_, _)) == IF S = {} THEN 0
                         ELSE CHOOSE i \in S : \A j \in S \ {i} : Less(Ends[i], Ends[j])
Collinear == IsZero(IDir(A, B, C, D))
\* all four points share a zero coordinate: they stay exactly coplanar after normalisation
AxisPlane == \E i \in 1..3 : A[i] = 0 /\ B[i] = 0 /\ C[i] = 0 /\ D[i] = 0

\* ---- model theorems --------------------------------------------------------
\* the two expansions never disagree: s*D is a non-negative combination of a,b AND of c,d
OrientAgree ==
    Full /\ ~Collinear =>
        /\ CoefOnA(A, B, C, D) * CoefOnB(A, B, C, D) >= 0
        /\ CoefOnC(A, B, C, D) * CoefOnD(A, B, C, D) >= 0
        /\ Orient(A, B, C, D) = Orient2(A, B, C, D)
        /\ Orient(A, B, C, D) # 0
ExpansionOK ==
    Full => /\ IDir(A, B, C, D) = VAdd(Scale(CoefOnB(A, B, C, D), B), Scale(CoefOnA(A, B, C, D), A))
            /\ IDir(A, B, C, D) = VAdd(Scale(CoefOnC(A, B, C, D), C), Scale(CoefOnD(A, B, C, D), D))
\* the oriented direction is invariant under the 8 argument permutations
DirSymmetric ==
    Full => /\ XDir(A, B, C, D) = XDir(B, A, C, D)
            /\ XDir(A, B, C, D) = XDir(A, B, D, C)
            /\ XDir(A, B, C, D) = XDir(C, D, A, B)
\* collinear crossing edges overlap: exactly two endpoints lie inside the other edge
CollinearTwoInside == Full /\ Collinear => Cardinality(InArcIdx) = 2
\* X lies on the great circles of both edges
OnBothCircles == Full => /\ Dot(Cross(A, B), XDir(A, B, C, D)) = 0
                         /\ Dot(Cross(C, D), XDir(A, B, C, D)) = 0

Emit ==
    IF Full
    THEN PrintT(<<"CASE", ToJson([op |-> "isect", a |-> A, b |-> B, c |-> C, d |-> D,
                                  x |-> XDir(A, B, C, D),
                                  collinear |-> Collinear,
                                  robust |-> CrossingRobust(A, B, C, D),
                                  axis |-> AxisPlane,
                                  endl |-> IF Collinear THEN MinIdx(InArcIdx, LexLess) ELSE 0,
                                  endu |-> IF Collinear /\ N = 1 THEN MinIdx(InArcIdx, UnitLexLess) ELSE 0])>>)
    ELSE TRUE
=============================================================================
