---------------------------- MODULE Gen_Coverer ----------------------------
(***************************************************************************)
(* C05 generator and trace validator.                                      *)
(*                                                                         *)
(* INIT Init / NEXT Next: the states are the cases.                        *)
(*   "one"   every subset of the 16 depth-2 cells of one root              *)
(*   "multi" regions over the six faces, one pattern of a menu per face    *)
(*   "big"   large depth-3 regions over the six faces (most of the 384      *)
(*           cells, a residue class removed): their normal form has far     *)
(*           more cells than any MaxCells, the case a region with a large   *)
(*           CellUnionBound presents to FastCovering                        *)
(*   "grid"  W2 regions: rectangles of level-G cells of a face, with or    *)
(*           without a rectangular hole, as loop vertex walks; and the     *)
(*           polyline through the centres of a row and a column of cells   *)
(*   "real"  descriptors of float regions (kind, placement, size), and the *)
(*           special values (empty / full / zero-value objects)            *)
(*   "rect"  lat-lng rectangles on the pi/8 x pi/4 grid                    *)
(*   "band"  lat-lng rectangles whose low (high, in the south) latitude    *)
(*           edge passes just under the apex of a cube edge: the edge of   *)
(*           an equatorial face cell is a great circle that bulges from    *)
(*           35.26 degrees at the cube corners to 45 degrees in the middle,*)
(*           so such a rectangle meets the face cell only in a sliver      *)
(*           between two crossings of one cell edge (no vertex of either   *)
(*           inside the other); 20..170 degrees wide, also across the      *)
(*           antimeridian (face 3)                                         *)
(* For the discrete kinds TLC emits the region's leaf set and what the     *)
(* postconditions of Coverer.tla need (normal form, least covering sizes), *)
(* the exact results of Denormalize and the exact verdicts of IsCanonical. *)
(* Model theorems are invariants over every visited region.                *)
(*                                                                         *)
(* INIT TInit / NEXT TNext: direction B.  The harness logged, for a sample *)
(* of (region, configuration) pairs, the five real results in model form   *)
(* and its own verdict per clause; TLC re-evaluates every postcondition of *)
(* Coverer.tla on the logged results and demands the same verdicts.        *)
(***************************************************************************)
EXTENDS Coverer, Json

CONSTANTS OneA,        \* subset of 0..15: low four membership bits (work partition of "one")
          Stride, Off, \* "one": the high 12 bits b with b % Stride = Off
          MultiRoots,  \* subset of the menu: pattern of face 0 (work partition of "multi")
          MultiMenu,   \* subset of 1..Len(Menu): patterns used on faces 1..5
          BigRoots, BigN, \* "big": offsets (work partition) and multipliers 1..BigN
          ModelEvery,  \* model theorems on regions with number % ModelEvery = 0
          PredEvery,   \* Denormalize / IsCanonical predictions on regions with number % PredEvery = 0
          GridFaces, GridG, GridEvery, GridOff,
          RealKinds, RealPlaces, RealSizes, RealEvery,
          RectEvery, RectOff,
          BandFaces, BandEvery, BandOff,   \* "band": equatorial faces (0, 1, 3, 4) and sampling
          ObsFile      \* trace mode: ndjson written by the harness ("" in generator mode)

\* ---- configurations ---------------------------------------------------------
CfgTuples == {<<mn, mx, md, mc>> : mn \in 0..4, mx \in 0..4, md \in 1..3, mc \in {1, 2, 3, 4, 8, 100}}
TupLess(a, b) ==
    \E i \in 1..4 : a[i] < b[i] /\ \A j \in 1..(i - 1) : a[j] = b[j]
CfgSeq == SetToSortSeq({c \in CfgTuples : c[1] <= c[2]}, TupLess)
CfgRec(c) == [mn |-> c[1], mx |-> c[2], md |-> c[3], mc |-> c[4]]
NCfg == Len(CfgSeq)
ASSUME NCfg = 270

\* relative configurations of the float regions: offsets to the region's natural
\* level (the harness clamps to 0..30); -99 means level 0
RelTuples == {<<dmn, dmx, md, mc>> : dmn \in {-99, -2, 0}, dmx \in {0, 2, 4}, md \in 1..3, mc \in {1, 3, 8, 50}}
RelSeq == SetToSortSeq(RelTuples, TupLess)
RelPick(h) == {i \in 1..Len(RelSeq) : (i + h) % RealEvery = 0}
RelFor(h) == [i \in 1..Cardinality(RelPick(h)) |-> RelSeq[SetToSortSeq(RelPick(h), <)[i]]]

\* ---- discrete regions ---------------------------------------------------------
Bit(n, i) == (n \div (2 ^ i)) % 2 = 1
Menu == << {}, 0..15, {0}, {15}, {0, 5, 10}, {3, 12}, {5, 6, 9, 10}, {0, 1, 2, 3, 4}, 1..15 >>

VARIABLE t
Kind == t[1]
D == IF Kind = "big" THEN 3 ELSE 2
Full ==
    \/ Kind = "one" /\ Len(t) = 3
    \/ Kind = "multi" /\ Len(t) = 7
    \/ Kind = "big" /\ Len(t) = 3
Number == IF Kind = "one" THEN t[2] + 16 * t[3] ELSE IF Kind = "big" THEN 1 + t[2] + 5 * t[3] ELSE t[3] + 9 * t[4] + 81 * t[5] + 729 * t[6] + 6561 * t[7]
S ==
    IF Kind = "one" THEN {i \in 0..15 : Bit(t[2] + 16 * t[3], i)}
    ELSE IF Kind = "big" THEN {g \in 0..383 : (g * t[3] + t[2]) % 5 # 0}
    ELSE UNION {{f * 16 + x : x \in Menu[t[f + 2]]} : f \in 0..5}
NRoots == IF Kind = "one" THEN 1 ELSE 6
SelNo == IF Kind = "one" THEN t[3] ELSE Number      \* sampling index of the region

\* ---- W2 regions -----------------------------------------------------------------
GN == 2 ^ GridG
Rects == {<<i0, i1, j0, j1>> : i0 \in 0..GN, i1 \in 0..GN, j0 \in 0..GN, j1 \in 0..GN}
RectNo(r) == ((r[1] * (GN + 1) + r[2]) * (GN + 1) + r[3]) * (GN + 1) + r[4]
\* boundary walk through every grid point, counter-clockwise in (i,j)
Walk(i0, i1, j0, j1) ==
    [k \in 1..(i1 - i0) |-> <<i0 + k - 1, j0>>] \o
    [k \in 1..(j1 - j0) |-> <<i1, j0 + k - 1>>] \o
    [k \in 1..(i1 - i0) |-> <<i1 - k + 1, j1>>] \o
    [k \in 1..(j1 - j0) |-> <<i0, j1 - k + 1>>]
\* hole variants: 0 none, 1 the rectangle shrunk by one cell, 2 a single cell near the low corner
HoleOf(r, h) ==
    IF h = 1 THEN <<r[1] + 1, r[2] - 1, r[3] + 1, r[4] - 1>>
    ELSE <<r[1] + 1, r[1] + 2, r[3] + 1, r[3] + 2>>
HoleOK(r, h) ==
    h = 0 \/ (LET q == HoleOf(r, h)
              IN  q[1] < q[2] /\ q[3] < q[4] /\ q[1] > r[1] /\ q[2] < r[2] /\ q[3] > r[3] /\ q[4] < r[4])
Squares(r) == {<<i, j>> : i \in r[1]..(r[2] - 1), j \in r[3]..(r[4] - 1)}
GridSquares(r, h) == IF h = 0 THEN Squares(r) ELSE Squares(r) \ Squares(HoleOf(r, h))
SqLess(a, b) == a[1] < b[1] \/ (a[1] = b[1] /\ a[2] < b[2])

\* ---- float regions: kinds, placements (a feature of a cell given by face, level, i, j), sizes
KindSeq == <<"cap", "rect", "regloop", "polyline", "point", "capcompl", "fullloop", "emptyloop", "fullpolygon", "emptypolygon", "zeropolygon", "emptycap", "fullcap", "emptyrect", "fullrect">>
\* feature 0 = centre of the cell, 1 = its vertex 0 (low corner)
PlaceSet ==
    {<<f, 0, 0, 0, 0>> : f \in 0..5} \cup                     \* face centres: +-x, +-y, poles; face 3 = antimeridian
    {<<f, 1, i, j, 1>> : f \in 0..5, i \in 0..1, j \in 0..1} \cup \* cube corners, edge midpoints, face centres again
    {<<f, 3, 2, 5, 0>> : f \in 0..5} \cup                     \* generic interior points
    {<<f, 10, 0, 0, 0>> : f \in 0..5} \cup                    \* close to a cube corner
    {<<f, 12, 2048, 1, 0>> : f \in 0..5} \cup                 \* close to a cube edge
    {<<f, 30, 3, 536870911, 0>> : f \in {1, 3, 4}}            \* a leaf cell
PlaceLess(a, b) == \E i \in 1..5 : a[i] < b[i] /\ \A j \in 1..(i - 1) : a[j] = b[j]
PlaceSeq == SetToSortSeq(PlaceSet, PlaceLess)
NSizes == 12
ASSUME Len(PlaceSeq) = 51

Init ==
    \/ t \in {<<"one", a>> : a \in OneA}
    \/ t \in {<<"multi", p>> : p \in MultiRoots}
    \/ t \in {<<"big", a>> : a \in BigRoots}
    \/ t \in {<<"grid", f>> : f \in GridFaces}
    \/ t \in {<<"real", k>> : k \in RealKinds}
    \/ t \in {<<"rect", a>> : a \in IF RectEvery > 0 THEN -4..3 ELSE {}}
    \/ t \in {<<"band", f>> : f \in BandFaces}
Next ==
    /\ Len(t) = 2
    /\ \/ Kind = "one" /\ t' \in {<<"one", t[2], b>> : b \in {x \in 0..4095 : x % Stride = Off}}
       \/ Kind = "big" /\ t' \in {<<"big", t[2], m>> : m \in 1..BigN}
       \/ Kind = "multi" /\ t' \in {<<"multi", t[2], p1, p2, p3, p4, p5>> :
                                        p1 \in MultiMenu, p2 \in MultiMenu, p3 \in MultiMenu,
                                        p4 \in MultiMenu, p5 \in MultiMenu}
       \/ Kind = "grid" /\ t' \in {<<"grid", t[2], r, h>> :
                                      r \in {q \in Rects : q[1] < q[2] /\ q[3] < q[4] /\
                                                           (RectNo(q) + t[2]) % GridEvery = GridOff},
                                      h \in 0..3}
       \/ Kind = "real" /\ t' \in {<<"real", t[2], p, s>> : p \in RealPlaces \cap (1..Len(PlaceSeq)), s \in RealSizes}
       \/ Kind = "rect" /\ t' \in {<<"rect", t[2], lathi, lnglo, lnghi>> :
                                      lathi \in t[2]..4, lnglo \in -4..4, lnghi \in -4..4}
       \* hemisphere, gap below the apex, width, offset of the centre longitude, height: indices
       \* into the tables of the harness (BandGaps, BandWidths, BandOffsets, BandHeights)
       \/ Kind = "band" /\ t' \in {<<"band", t[2], sg, g, w, o, h>> :
                                      sg \in 0..1, g \in 0..3, w \in 0..5, o \in 0..2, h \in 0..2}

\* ---- model theorems --------------------------------------------------------------
Caps == {4, 30}
DoModel == Full /\ Kind # "big" /\ SelNo % (IF Kind = "one" THEN ModelEvery ELSE 40 * ModelEvery) = 0
CanonLaws ==
    DoModel =>
        LET C == Canon(S, D)
        IN  /\ LeafSet(C, D) = S
            /\ Normalized(SortCells(C))
            /\ \A c \in C : RContains(S, D, c) /\ (c[2] > 0 => ~RContains(S, D, Parent(c)))
DenormLaws ==
    DoModel =>
        \A mn \in 0..4, md \in 1..3, cap \in Caps :
            LET C == Canon(S, D)
                Y == Denorm(C, mn, md, cap)
                L == Max2(D, MaxLevelOf(Y))
            IN  /\ LeafSet(Y, L) = Lift(S, D, L)                                   \* same leaves
                /\ \A c \in Y : c[2] >= mn /\ ((c[2] - mn) % md = 0 \/ c[2] = cap) \* respects (min, mod)
                /\ IsValidSeq(SortCells(Y))
                /\ Cardinality(Y) >= Cardinality(C)
                /\ (L <= 4 => Canon(LeafSet(Y, L), L) = C)                         \* Normalize undoes it
\* the postconditions are consistent: for every configuration some result satisfies them,
\* and the obviously wrong results (one region leaf dropped / one foreign leaf added) do not
Satisfiable ==
    DoModel =>
        \A i \in {j \in 1..NCfg : CfgSeq[j][4] = 1} :      \* MaxCells = 1 is the strictest count bound
            LET cfg == CfgRec(CfgSeq[i])
                L == Max2(D, cfg.mn)
                cov == SortCells(SpecCovering(S, D, cfg))
                int == SortCells(SpecInterior(S, D, cfg, 30))
                cu == SortCells(Canon(LeafSet(Range(cov), L), L))
                icu == SortCells(Canon(LeafSet(Range(int), Max2(L, MaxLevelOf(Range(int)))),
                                       Max2(L, MaxLevelOf(Range(int)))))
            IN  /\ CoveringOK(S, D, cov, cfg)
                /\ Len(cov) = NMin(S, D, cfg.mn)
                /\ FastCoveringOK(S, D, cov, cfg)
                /\ InteriorCoveringOK(S, D, int, cfg)
                /\ CellUnionOK(S, D, cu, cfg, 30)
                /\ InteriorCellUnionOK(S, D, icu, cfg, 30)
                /\ (S # {} => LET g == CHOOSE x \in S : TRUE
                               IN  ~Covers(S, D, Canon(S \ {g}, D), cfg))
                /\ (S # 0..(NRoots * 16 - 1) =>
                       LET g == CHOOSE x \in 0..(NRoots * 16 - 1) : x \notin S
                       IN  ~Inside(S, D, Canon(S \cup {g}, D), cfg))
                /\ IsCanonical(SortCells(Denorm(Canon(S, D), cfg.mn, cfg.md, 30)),
                               [cfg EXCEPT !.mc = 100000, !.mx = 30])

\* ---- emission ----------------------------------------------------------------------
CanonicalFor(Xs) == {i \in 1..NCfg : IsCanonical(Xs, CfgRec(CfgSeq[i]))}
PredCases ==
    LET C == Canon(S, D)
        dens == {<<mn, md, cap>> : mn \in {(SelNo \div PredEvery) % 5}, md \in 1..3, cap \in Caps}
    IN  /\ \A x \in dens :
              PrintT(<<"CASE", ToJson([op |-> "denorm", roots |-> NRoots, x |-> SortCells(C),
                                       mn |-> x[1], md |-> x[2], cap |-> x[3],
                                       want |-> SortCells(Denorm(C, x[1], x[2], x[3]))])>>)
        \* one union per selected region (which one rotates with the region), all 270 configurations
        /\ LET pick == (SelNo \div PredEvery) % 15
               Xs == SortCells(Denorm(C, pick \div 3, (pick % 3) + 1, 30))
           IN  PrintT(<<"CASE", ToJson([op |-> "canonical", roots |-> NRoots, x |-> Xs,
                                        want |-> SetToSortSeq(CanonicalFor(Xs), <)])>>)

EmitDiscrete ==
    /\ PrintT(<<"CASE", ToJson([op |-> "cover", kind |-> Kind, roots |-> NRoots, d |-> D, no |-> Number,
                                leaves |-> SetToSortSeq(S, <),
                                canon |-> SortCells(Canon(S, D)),
                                nmin |-> [m \in 1..5 |-> NMin(S, D, m - 1)]])>>)
    /\ (Kind # "big" /\ SelNo % PredEvery = 0 => PredCases)

\* h = 3: the polyline through the centres of the cells of the bottom row and then of the right
\* column of the rectangle.  Lines of constant u or v are great circles, so it runs through the
\* middle of exactly these cells.
LinePath(r) ==
    [k \in 1..(r[2] - r[1]) |-> <<r[1] + k - 1, r[3]>>] \o
    [k \in 1..(r[4] - r[3] - 1) |-> <<r[2] - 1, r[3] + k>>]
LineVerts(r) ==
    IF r[2] - r[1] = 1 /\ r[4] - r[3] = 1 THEN << <<r[1], r[3]>> >>
    ELSE IF r[2] - r[1] = 1 \/ r[4] - r[3] = 1 THEN << <<r[1], r[3]>>, <<r[2] - 1, r[4] - 1>> >>
    ELSE << <<r[1], r[3]>>, <<r[2] - 1, r[3]>>, <<r[2] - 1, r[4] - 1>> >>
EmitGrid ==
    LET r == t[3] h == t[4]
    IN  IF h = 3
        THEN PrintT(<<"CASE", ToJson([op |-> "gridline", face |-> t[2], g |-> GridG, rect |-> r,
                                      verts |-> LineVerts(r), cells |-> LinePath(r),
                                      cfgs |-> RelFor(RectNo(r) + 3)])>>)
        ELSE IF ~HoleOK(r, h) THEN TRUE
        ELSE PrintT(<<"CASE", ToJson([op |-> "grid", face |-> t[2], g |-> GridG, rect |-> r, hole |-> h,
                                      shell |-> Walk(r[1], r[2], r[3], r[4]),
                                      holewalk |-> IF h = 0 THEN <<>>
                                                   ELSE LET q == HoleOf(r, h) IN Walk(q[1], q[2], q[3], q[4]),
                                      squares |-> SetToSortSeq(GridSquares(r, h), SqLess),
                                      cfgs |-> RelFor(RectNo(r) + h)])>>)

EmitReal ==
    PrintT(<<"CASE", ToJson([op |-> "region", kind |-> KindSeq[t[2]], place |-> PlaceSeq[t[3]], size |-> t[4],
                             cfgs |-> RelFor(t[3] * 7 + t[4])])>>)

RectHash == ((t[2] + 4) * 9 + (t[3] + 4)) * 81 + (t[4] + 4) * 9 + (t[5] + 4)
EmitRect ==
    IF RectHash % RectEvery = RectOff
    THEN PrintT(<<"CASE", ToJson([op |-> "region", kind |-> "latlng", place |-> <<0, 0, 0, 0, 0>>, size |-> 0,
                                  rect |-> <<t[2], t[3], t[4], t[5]>>,
                                  cfgs |-> RelFor(RectHash)])>>)
    ELSE TRUE

BandHash == ((((t[2] * 2 + t[3]) * 4 + t[4]) * 6 + t[5]) * 3 + t[6]) * 3 + t[7]
EmitBand ==
    IF BandHash % BandEvery = BandOff
    THEN PrintT(<<"CASE", ToJson([op |-> "region", kind |-> "band", place |-> <<0, 0, 0, 0, 0>>, size |-> 0,
                                  band |-> <<t[2], t[3], t[4], t[5], t[6], t[7]>>,
                                  cfgs |-> RelFor(BandHash)])>>)
    ELSE TRUE

Emit ==
    IF Len(t) = 2 /\ Kind = "one" THEN PrintT(<<"CFGS", ToJson([cfgs |-> CfgSeq])>>)
    ELSE IF Full THEN EmitDiscrete
    ELSE IF Kind = "grid" /\ Len(t) = 4 THEN EmitGrid
    ELSE IF Kind = "real" /\ Len(t) = 4 THEN EmitReal
    ELSE IF Kind = "rect" /\ Len(t) = 5 THEN EmitRect
    ELSE IF Kind = "band" /\ Len(t) = 7 THEN EmitBand
    ELSE TRUE

\* ---- direction B: validate logged results against the postconditions ---------------
Obs == IF ObsFile = "" THEN <<>> ELSE ndJsonDeserialize(ObsFile)
TInit == t \in {<<"obs", w>> : w \in 0..15}
TNext == Len(t) = 2 /\ t' \in {<<"obs", t[2], i>> : i \in {x \in 1..Len(Obs) : x % 16 = t[2]}}

Cells(xs) == [i \in 1..Len(xs) |-> <<xs[i][1], xs[i][2], xs[i][3]>>]
Verdicts(o) ==
    LET SS == Range(o.leaves)
        cfg == CfgRec(o.cfg)
        cov == Cells(o.cov) int == Cells(o.int) fast == Cells(o.fast)
        cu == Cells(o.cu) icu == Cells(o.icu)
    IN  [cov_covers |-> Covers(SS, o.d, Range(cov), cfg),
         cov_levels |-> LevelsOK(Range(cov), cfg),
         cov_maxcells |-> MaxCellsOK(SS, o.d, cov, cfg),
         fast_covers |-> Covers(SS, o.d, Range(fast), cfg),
         fast_levels |-> LevelsOK(Range(fast), cfg),
         int_inside |-> Inside(SS, o.d, Range(int), cfg),
         int_levels |-> LevelsOK(Range(int), cfg),
         cu_covers |-> Covers(SS, o.d, Range(cu), cfg),
         cu_limits |-> UnionLimitsOK(cu, cfg, o.cap),
         icu_inside |-> Inside(SS, o.d, Range(icu), cfg),
         icu_limits |-> UnionLimitsOK(icu, cfg, o.cap),
         cov_canonical |-> IsCanonical(cov, cfg)]
ObsAgree ==
    (Kind = "obs" /\ Len(t) = 3) =>
        LET o == Obs[t[3]]
            v == Verdicts(o)
        IN  IF \A k \in DOMAIN v : v[k] = o.verdict[k] THEN TRUE
            ELSE PrintT(<<"DISAGREE", ToJson([line |-> t[3], spec |-> v, harness |-> o.verdict])>>)  \* judged by the driver
=============================================================================
