----------------------- MODULE IndexConcurrencyProof ------------------------
(***************************************************************************)
(* C14: machine-checked proof (TLAPS) that the protocol of                 *)
(* ShapeIndex.maybeApplyUpdates, as written in IndexConcurrencyCore.tla,   *)
(* is safe for EVERY number of goroutines NP and every MaxRounds: mutual   *)
(* exclusion, no query ever reads an incomplete cell map or one that is    *)
(* being written, the pending updates are applied at most once, and a      *)
(* fresh status implies a complete cell map.  TLC checks the same          *)
(* invariants for NP <= 4 and replays the schedules against real           *)
(* goroutines; this proof removes the bound on the model side.             *)
(*                                                                         *)
(* The Finish action of IndexConcurrency.tla leaves all variables          *)
(* unchanged, so every behaviour of its Spec satisfies ProofSpec below.    *)
(***************************************************************************)
EXTENDS IndexConcurrencyCore, TLAPS

ASSUME Params ==
    /\ NP \in Nat /\ MaxRounds \in Nat
    /\ InitFresh \in BOOLEAN /\ KeepHist \in BOOLEAN
    /\ StoreEarly = FALSE /\ NoLock = FALSE

ProofSpec == Init /\ [][CoreNext]_vars

PCs == {"load", "lock", "locked", "faceA", "faceB", "store", "unlock", "ret", "done"}

TypeOK ==
    /\ status \in {"stale", "fresh"}
    /\ mutex \in Procs \cup {0}
    /\ pending \in BOOLEAN /\ complete \in BOOLEAN
    /\ writer \in Procs \cup {0}
    /\ applies \in Nat
    /\ pc \in [Procs -> PCs]
    /\ round \in [Procs -> Nat]
    /\ badRead \in BOOLEAN

IInv ==
    /\ TypeOK
    /\ \A p \in Procs : InCS(p) => mutex = p
    /\ writer # 0 => (pc[writer] \in {"faceA", "faceB"} /\ pending /\ applies = 1)
    /\ complete <=> ~pending
    /\ status = "fresh" => complete
    /\ \A p \in Procs : pc[p] \in {"faceA", "faceB"} => (writer = p \/ complete)
    /\ \A p \in Procs : pc[p] \in {"store", "unlock", "ret"} => complete
    /\ applies <= 1
    /\ (pending /\ writer = 0) => applies = 0
    /\ ~badRead

Safety == MutualExclusion /\ HolderInCS /\ ReadsAreSafe /\ AppliedAtMostOnce /\ FreshMeansComplete

LEMMA ZeroNotProc == 0 \notin Procs
BY Params DEF Procs

LEMMA InitInv == Init => IInv
<1> SUFFICES ASSUME Init PROVE IInv OBVIOUS
<1> USE Params, ZeroNotProc
<1>1 TypeOK BY DEF Init, TypeOK, PCs
<1>2 \A p \in Procs : ~InCS(p) BY DEF Init, InCS
<1> QED BY <1>1, <1>2 DEF Init, IInv

LEMMA StepInv == IInv /\ [CoreNext]_vars => IInv'
<1> SUFFICES ASSUME IInv, [CoreNext]_vars PROVE IInv' OBVIOUS
<1> USE Params, ZeroNotProc
<1>1 CASE UNCHANGED vars
    BY <1>1 DEF vars, IInv, TypeOK, InCS
<1>2 ASSUME NEW p \in Procs, Load(p) PROVE IInv'
    BY <1>2 DEF Load, IInv, TypeOK, InCS, PCs
<1>3 ASSUME NEW p \in Procs, Lock(p) PROVE IInv'
    BY <1>3 DEF Lock, IInv, TypeOK, InCS, PCs
<1>4 ASSUME NEW p \in Procs, Locked(p) PROVE IInv'
    BY <1>4 DEF Locked, IInv, TypeOK, InCS, PCs
<1>5 ASSUME NEW p \in Procs, FaceA(p) PROVE IInv'
    BY <1>5 DEF FaceA, IInv, TypeOK, InCS, PCs
<1>6 ASSUME NEW p \in Procs, FaceB(p) PROVE IInv'
    BY <1>6 DEF FaceB, IInv, TypeOK, InCS, PCs
<1>7 ASSUME NEW p \in Procs, Store(p) PROVE IInv'
    BY <1>7 DEF Store, IInv, TypeOK, InCS, PCs
<1>8 ASSUME NEW p \in Procs, Unlock(p) PROVE IInv'
    BY <1>8 DEF Unlock, IInv, TypeOK, InCS, PCs
<1>9 ASSUME NEW p \in Procs, Ret(p) PROVE IInv'
    BY <1>9 DEF Ret, IInv, TypeOK, InCS, PCs
<1> QED BY <1>1, <1>2, <1>3, <1>4, <1>5, <1>6, <1>7, <1>8, <1>9 DEF CoreNext, Step

LEMMA InvSafe == IInv => Safety
<1> SUFFICES ASSUME IInv PROVE Safety OBVIOUS
<1> USE Params, ZeroNotProc
<1> QED BY DEF IInv, TypeOK, Safety, MutualExclusion, HolderInCS, ReadsAreSafe, AppliedAtMostOnce, FreshMeansComplete, InCS

THEOREM Correct == ProofSpec => []Safety
<1>1 IInv /\ [][CoreNext]_vars => []IInv BY StepInv, PTL
<1> QED BY <1>1, InitInv, InvSafe, PTL DEF ProofSpec
=============================================================================
