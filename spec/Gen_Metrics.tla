---------------------------- MODULE Gen_Metrics -----------------------------
(***************************************************************************)
(* Generator for Metrics.tla: a state is one dimension, or one dimension   *)
(* with one value [s, e, c].  Every state is checked against the discrete *)
(* laws and printed as a replay case (for every metric of that dimension)  *)
(* with the levels the specification gives.                                *)
(* The harness (p_ext_cells.go: opExtMetric) builds  deriv * 2^e  with an  *)
(* exact power of two and takes the one-ulp neighbours with                *)
(* math.Nextafter for the classes "above" / "below".                       *)
(* Exponents beyond +-1000 stand for "beyond every threshold":             *)
(*   e = 2000: +Inf, 1500: MaxFloat64, -1500: 2^-1022, -2000: 5e-324.      *)
(***************************************************************************)
EXTENDS Metrics, Sequences, Json, TLC

CONSTANT ENeg, EPos       \* ordinary exponents: -ENeg..EPos (cfg files have no negative numbers)

\* the exported metrics of s2/metric.go with their dimension, and synthetic ones whose deriv has an
\* extreme mantissa (1, 1 + 2^-52, 2 - 2^-52), where the rounding of v/deriv is most delicate
MetricTab == <<
    [n |-> "MinAngleSpan", d |-> 1], [n |-> "AvgAngleSpan", d |-> 1], [n |-> "MaxAngleSpan", d |-> 1],
    [n |-> "MinWidth", d |-> 1], [n |-> "AvgWidth", d |-> 1], [n |-> "MaxWidth", d |-> 1],
    [n |-> "MinEdge", d |-> 1], [n |-> "AvgEdge", d |-> 1], [n |-> "MaxEdge", d |-> 1],
    [n |-> "MinArea", d |-> 2], [n |-> "AvgArea", d |-> 2], [n |-> "MaxArea", d |-> 2],
    [n |-> "MinDiag", d |-> 1], [n |-> "AvgDiag", d |-> 1], [n |-> "MaxDiag", d |-> 1],
    [n |-> "SynOne", d |-> 1], [n |-> "SynOne", d |-> 2],
    [n |-> "SynLo", d |-> 1], [n |-> "SynLo", d |-> 2],
    [n |-> "SynHi", d |-> 1], [n |-> "SynHi", d |-> 2] >>

Ordinary == {[s |-> 1, e |-> e, c |-> c] : e \in (-ENeg)..EPos, c \in Classes}
Specials ==
    {[s |-> 0, e |-> 0, c |-> "at"], [s |-> 0, e |-> 0, c |-> "below"]}        \* +0, -0
    \cup {[s |-> -1, e |-> e, c |-> "at"] : e \in {-2000, -40, 0, 2000}}          \* negative values
    \cup {[s |-> 1, e |-> e, c |-> "at"] : e \in {-2000, -1500, 1500, 2000}}      \* tiny, huge
Values == Ordinary \cup Specials

VARIABLE t
\* a state is <<dim>> or <<dim, value>>; the replay case lists every metric of that dimension
Init == t \in {<<d>> : d \in {MetricTab[m].d : m \in 1..Len(MetricTab)}}
Next == Len(t) = 1 /\ t' \in {<<t[1], v>> : v \in Values}

D == t[1]
Names == {MetricTab[m].n : m \in {k \in 1..Len(MetricTab) : MetricTab[k].d = D}}
IsMetric == Len(t) = 1
IsValue == Len(t) = 2
V == t[2]

\* ---- model theorems
MetricLaws == IsMetric => ValueMonotone(D) /\ RoundTrip(D)
ValueLaws == IsValue => CodeIsSpec(D, V) /\ Thresholds(D, V)
OrderLaws ==
    (IsValue /\ V.s = 1) =>
        \A w \in {At(V.e + 1), [s |-> 1, e |-> V.e, c |-> "above"], [s |-> 1, e |-> V.e + 1, c |-> "below"]} :
            Antitone(D, V, w)
\* zero and negative values: "no such level" / "every level"
DegenerateLaws ==
    (IsValue /\ V.s < 1) => MinLevelOf(D, V) = 30 /\ MaxLevelOf(D, V) = 30

\* ---- replay cases
Emit ==
    IF IsMetric
    THEN PrintT(<<"CASE", ToJson([op |-> "metric", kind |-> "value", names |-> Names, dim |-> D,
                                  vexp |-> [l \in 1..31 |-> ValueExp(D, l - 1)]])>>)
    ELSE PrintT(<<"CASE", ToJson([op |-> "metric", kind |-> "levels", names |-> Names, dim |-> D, s |-> V.s, e |-> V.e, c |-> V.c,
                                  min |-> MinLevelOf(D, V), max |-> MaxLevelOf(D, V),
                                  closest |-> ClosestLevelsOf(D, V)])>>)
=============================================================================
