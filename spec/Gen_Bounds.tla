----------------------------- MODULE Gen_Bounds -----------------------------
(* C10, direction A: the regions whose bounds are examined and the witnesses   *)
(* the model certifies to be inside them.                                       *)
(*  W2: for every window <<face, G, AI, AJ, Win, PG>> of Windows, every         *)
(*    rectangle A of level-G cells inside [AI, AI+Win] x [AJ, AJ+Win] (the      *)
(*    driver puts windows around the pole of faces 2/5, at face corners, on     *)
(*    the antimeridian ...; G up to 30), with the probes (centres of level-PG   *)
(*    cells in and around the window) classified by integer comparison, the     *)
(*    sub-rectangles of A that touch A's boundary (for the sub-region bound)    *)
(*    and up to two holes strictly inside A (polygons with holes).              *)
(*  W1: every counter-clockwise triangle of the lattice points SubIdx whose     *)
(*    first vertex is its smallest, with the integer combinations of its        *)
(*    vertices as witnesses (strictly inside iff all coefficients positive).    *)
(* Windows is a set of tuples: it is supplied by a generated module             *)
(* (CONSTANT Windows <- ...), SubIdx by the cfg.                                *)
EXTENDS Bounds, Json

CONSTANT Windows
CONSTANT SubIdx

\* ------------------------------------------------------------------ W2
WFace(w) == w[1]
WG(w) == w[2]
WAI(w) == w[3]
WAJ(w) == w[4]
WWin(w) == w[5]
WPG(w) == w[6]
Clip0(x) == IF x < 0 THEN 0 ELSE x
ClipS(x, s) == IF x > s THEN s ELSE x

RectsFrom(w, i0) ==
    LET s == Two(WG(w))
    IN  {a \in {<<WFace(w), WG(w), i0, j0, ww, hh>> :
                    j0 \in WAJ(w)..(WAJ(w) + WWin(w) - 1), ww \in 1..(WAI(w) + WWin(w) - i0), hh \in 1..WWin(w)} :
            /\ a[4] + a[6] <= WAJ(w) + WWin(w) /\ a[3] + a[5] <= s /\ a[4] + a[6] <= s}

ProbeSet(w) ==
    LET s == Two(WG(w)) ps == Two(WPG(w) - WG(w))
    IN  {<<WFace(w), WPG(w), i, j>> :
            i \in (Clip0(WAI(w) - 1) * ps)..(ClipS(WAI(w) + WWin(w) + 1, s) * ps - 1),
            j \in (Clip0(WAJ(w) - 1) * ps)..(ClipS(WAJ(w) + WWin(w) + 1, s) * ps - 1)}

SubsOf(a) ==
    {b \in {<<a[1], a[2], i0, j0, w, h>> : i0 \in a[3]..(a[3] + a[5] - 1), j0 \in a[4]..(a[4] + a[6] - 1),
                                           w \in 1..a[5], h \in 1..a[6]} :
        /\ RectInRect(b, a)
        /\ (b[3] = a[3] \/ b[4] = a[4] \/ b[3] + b[5] = a[3] + a[5] \/ b[4] + b[6] = a[4] + a[6])}
HolesOf(a) ==
    IF a[5] >= 3 /\ a[6] >= 3
    THEN {<<a[1], a[2], a[3] + 1, a[4] + 1, 1, 1>>, <<a[1], a[2], a[3] + 1, a[4] + 1, a[5] - 2, a[6] - 2>>}
    ELSE {}

\* ------------------------------------------------------------------ W1
PtSeq == SetToSortSeq(Pts, LexLess)
Sub == {PtSeq[i] : i \in SubIdx \cap (1..Len(PtSeq))}
Ks == {k \in {0, 1, 2} \X {0, 1, 2} \X {0, 1, 2} : k # <<0, 0, 0>>}
ValidTri(a, b, c) ==
    /\ LexLess(a, b) /\ LexLess(a, c) /\ b # c
    /\ Det(a, b, c) > 0
    /\ ~Parallel(a, b) /\ ~Parallel(b, c) /\ ~Parallel(a, c)

VARIABLE t
Init ==
    \/ t \in UNION {{[kind |-> "w2root", w |-> w, i0 |-> i0] : i0 \in WAI(w)..(WAI(w) + WWin(w) - 1)} : w \in Windows}
    \/ t \in {[kind |-> "w1root", a |-> a] : a \in Sub}
Next ==
    \/ /\ t.kind = "w2root"
       /\ t' \in {[kind |-> "w2", w |-> t.w, a |-> a] : a \in RectsFrom(t.w, t.i0)}
    \/ /\ t.kind = "w1root"
       /\ t' \in {[kind |-> "w1", tri |-> <<t.a, bc[1], bc[2]>>] :
                     bc \in {bc \in Sub \X Sub : ValidTri(t.a, bc[1], bc[2])}}

\* ---- model theorems ----------------------------------------------------------
\* every certified lattice witness is strictly on the left of all three edges
TriCert == t.kind = "w1" =>
    \A k \in Ks : TriWitnessCert(k, t.tri[1], t.tri[2], t.tri[3])
\* inclusion of rectangles is inclusion of their probe sets
InclCert == t.kind = "w2" =>
    \A b \in SubsOf(t.a) : \A p \in ProbeSet(t.w) : ProbeInRect(p, b) => ProbeInRect(p, t.a)
HoleCert == t.kind = "w2" =>
    \A h \in HolesOf(t.a) : RectInRect(h, t.a) /\ h[3] > t.a[3] /\ h[4] > t.a[4]
                            /\ h[3] + h[5] < t.a[3] + t.a[5] /\ h[4] + h[6] < t.a[4] + t.a[6]

R4(r) == <<r[3], r[4], r[5], r[6]>>
Pr2(p) == <<p[3], p[4]>>
Emit ==
    IF t.kind = "w2"
    THEN LET a == t.a
             pin == {p \in ProbeSet(t.w) : ProbeInRect(p, a)}
             pout == ProbeSet(t.w) \ pin
         IN  PrintT(<<"CASE", ToJson([op |-> "c10.w2", f |-> a[1], g |-> a[2], a |-> R4(a), pg |-> WPG(t.w), sublvl |-> 0,
                                      subs |-> SetToSeq({R4(b) : b \in SubsOf(a)}),
                                      holes |-> SetToSeq({R4(h) : h \in HolesOf(a)}),
                                      pin |-> SetToSeq({Pr2(p) : p \in pin}),
                                      pout |-> SetToSeq({Pr2(p) : p \in pout}),
                                      pole |-> EnclosesPoleOrFace(a)])>>)
    ELSE IF t.kind = "w1"
    THEN PrintT(<<"CASE", ToJson([op |-> "c10.w1", a |-> t.tri[1], b |-> t.tri[2], c |-> t.tri[3],
                                  ks |-> SetToSeq(Ks)])>>)
    ELSE TRUE
=============================================================================
