------------------------------ MODULE Gen_Clip ------------------------------
(***************************************************************************)
(* Case generator for Clipping.tla.  Four families in one TLC run (one JVM *)
(* start in the quick tier); every state of the last kind of a family is   *)
(* checked against the theorems of Clipping.tla and printed as one replay  *)
(* case for harness/cmd/vcheck/p_ext_clip.go.                              *)
(*   rect    <<"rect", a>> -> <<"rect", A, B, R, Clip2(A, B, R)>>          *)
(*   face    <<"face", p>> -> <<"face", A, B, cs, cp>>  cs/cp = ClipFace   *)
(*           for the six faces, unpadded / padded                          *)
(*   shrink  <<"shrink", K, i1, "first">> -> <<"shrink", K, rect>>         *)
(*   normal  <<"normal", u>> -> <<"normal", Nu, Nv, Nw>> (magnitudes)      *)
(***************************************************************************)
EXTENDS Clipping, Json

CONSTANTS Families,    \* subset of {"rect", "face", "shrink", "normal"}
          M,           \* part A: grid 0..M
          AIdx,        \* part A: codes x * (M+1) + y of the first endpoints (work partition)
          N,           \* part B: lattice -N..N
          PIdx,        \* part B: codes of the first endpoints, ((x+N)(2N+1) + (y+N))(2N+1) + (z+N)
          QIdx,        \* part B: codes of the second endpoints
          PadN, PadD,  \* part B: the padded face is |u|,|v| <= (PadN/PadD) w
          KS,          \* part C: depths K
          Pool         \* part D: codes c2*25 + c1*5 + c0 of limb magnitudes (c in 0..4)

\* ---- part A
GridPt(c) == <<c \div (M + 1), c % (M + 1)>>
Grid2 == {<<x, y>> : x \in 0..M, y \in 0..M}
Ivals == {p \in (0..M) \X (0..M) : p[1] <= p[2]}
Rects == {<<ix[1], ix[2], iy[1], iy[2]>> : ix \in Ivals, iy \in Ivals}
CutSeq(A, B, R) ==
    LET one(ax, c) ==
          IF ax = 1 THEN (IF A[1] # B[1] /\ Between(c, A[1], B[1]) THEN <<1, c>> \o YAtX(A, B, c) ELSE <<0, 0, 0, 1>>)
          ELSE (IF A[2] # B[2] /\ Between(c, A[2], B[2]) THEN <<2, c>> \o XAtY(A, B, c) ELSE <<0, 0, 0, 1>>)
    IN  <<one(1, R[1]), one(1, R[2]), one(2, R[3]), one(2, R[4])>>

\* ---- part B
D1 == 2 * N + 1
LatPt(c) == <<(c \div (D1 * D1)) - N, ((c \div D1) % D1) - N, (c % D1) - N>>
GoodPt(p) == p # <<0, 0, 0>> /\ Primitive(p)
RPad == <<PadN, PadD>>
FaceEval(A, B, rr) == [f \in Faces |-> ClipFace(A, B, f, rr)]

\* ---- part C
Lines(K) == (-1)..(P2(K) + 1)

\* ---- part D
Limb(c) == <<c \div 25, (c \div 5) % 5, c % 5>>
SignPat(k) == <<IF k % 2 = 1 THEN -1 ELSE 1, IF (k \div 2) % 2 = 1 THEN -1 ELSE 1, IF (k \div 4) % 2 = 1 THEN -1 ELSE 1>>
Signed(n, k) == LET s == SignPat(k) IN <<LScale(s[1], n[1]), LScale(s[2], n[2]), LScale(s[3], n[3])>>

VARIABLE t
Init ==
    \/ "rect" \in Families /\ t \in {<<"rect", a>> : a \in AIdx}
    \/ "face" \in Families /\ t \in {<<"face", p>> : p \in {q \in PIdx : GoodPt(LatPt(q))}}
    \/ "shrink" \in Families /\ t \in {<<"shrink", K, i1, "first">> : K \in KS, i1 \in (-1)..9} /\ t[3] \in Lines(t[2])
    \/ "normal" \in Families /\ t \in {<<"normal", u>> : u \in Pool}

Next ==
    \/ /\ t[1] = "rect" /\ Len(t) = 2
       /\ t' \in {<<"rect", GridPt(t[2]), B, R, Clip2(GridPt(t[2]), B, R)>> : B \in Grid2, R \in Rects}
    \/ /\ t[1] = "face" /\ Len(t) = 2
       /\ t' \in {<<"face", LatPt(t[2]), B, FaceEval(LatPt(t[2]), B, RUnit), FaceEval(LatPt(t[2]), B, RPad)>> :
                     B \in {LatPt(q) : q \in {q \in QIdx : GoodPt(LatPt(q)) /\ ValidEdge3(LatPt(t[2]), LatPt(q))}}}
    \/ /\ t[1] = "shrink" /\ Len(t) = 4
       /\ t' \in {<<"shrink", t[2], r>> : r \in {r \in {<<t[3], i2, j1, j2>> : i2 \in Lines(t[2]), j1 \in Lines(t[2]), j2 \in Lines(t[2])} :
                                                       r[1] <= r[2] /\ r[3] <= r[4] /\ RectMeetsCell(t[2], r)}}
    \/ /\ t[1] = "normal" /\ Len(t) = 2
       /\ t' \in {<<"normal", Limb(t[2]), Limb(v), Limb(w)>> : v \in Pool, w \in Pool}

IsRect == t[1] = "rect" /\ Len(t) = 5
IsFace == t[1] = "face" /\ Len(t) = 5
IsShrink == t[1] = "shrink" /\ Len(t) = 3
IsNormal == t[1] = "normal" /\ Len(t) = 4

\* ---- theorems (INVARIANTs)
RectLaws == IsRect => /\ LawSAT(t[2], t[3], t[4], t[5]) /\ LawSwap(t[2], t[3], t[4], t[5])
                      /\ LawEnds(t[2], t[3], t[4], t[5]) /\ LawClass(t[2], t[3], t[4], t[5])
RectSymmetry == IsRect => LawMirror(t[2], t[3], t[4], t[5], M) /\ LawMono(t[2], t[3], t[4], t[5], M)
FaceLaws == IsFace => /\ LawCover(t[2], t[3], t[4]) /\ LawTile(t[2], t[3], t[4]) /\ LawEndsF(t[2], t[3], t[4])
FaceSymmetry == IsFace => /\ LawSwapF(t[2], t[3], t[4]) /\ LawAntipode(t[2], t[3], t[4]) /\ LawPad(t[2], t[3], t[4], RPad)
ShrinkLaws == IsShrink => LawShrink(t[2], t[3]) /\ LawCentre(t[2], t[3])
NormalLaws == IsNormal => \A k \in 0..7 : \A n \in {Signed(<<t[2], t[3], t[4]>>, k)} :
                              LawFaceFormula(n) /\ LawOppositeFormula(n) /\ LawExit(n)

\* ---- cases
FaceRow(A, B, c) == [cls |-> ClassF(c), t0 |-> c[2], t1 |-> c[3],
                     p0 |-> IF c[1] THEN DirAt(A, B, c[2]) ELSE <<0, 0, 0>>,
                     p1 |-> IF c[1] THEN DirAt(A, B, c[3]) ELSE <<0, 0, 0>>]
Rows(A, B, cs) == <<FaceRow(A, B, cs[0]), FaceRow(A, B, cs[1]), FaceRow(A, B, cs[2]),
                    FaceRow(A, B, cs[3]), FaceRow(A, B, cs[4]), FaceRow(A, B, cs[5])>>
SetSeq6(S) == <<0 \in S, 1 \in S, 2 \in S, 3 \in S, 4 \in S, 5 \in S>>
AxesOf(n) == LET e == ExitAxes(n) IN <<0 \in e, 1 \in e>>

Emit ==
    /\ IsRect =>
         LET A == t[2]  B == t[3]  R == t[4]  c == t[5]  R2 == GrowAll(R, M) IN
         PrintT(<<"CASE", ToJson([op |-> "ext/clip/rect", a |-> A, b |-> B, r |-> R, m |-> M,
                  ok |-> c[1], cls |-> Class2(c), ex |-> Exactable(A, B, R),
                  p0 |-> IF c[1] THEN PtAt(A, B, c[2]) ELSE <<>>,
                  p1 |-> IF c[1] THEN PtAt(A, B, c[3]) ELSE <<>>,
                  cuts |-> CutSeq(A, B, R), r2 |-> R2, ex2 |-> Exactable(A, B, R2)])>>)
    /\ IsFace =>
         LET A == t[2]  B == t[3]  cs == t[4]  cp == t[5] IN
         PrintT(<<"CASE", ToJson([op |-> "ext/clip/face", a |-> A, b |-> B, pad |-> RPad,
                  f0 |-> Rows(A, B, cs), f1 |-> Rows(A, B, cp),
                  robust |-> TouchFaces(cs) = {}, seq |-> FaceSeq(cs)])>>)
    /\ IsShrink =>
         PrintT(<<"CASE", ToJson([op |-> "ext/clip/shrink", k |-> t[2], r |-> t[3], want |-> ShrinkAnswer(t[2], t[3])])>>)
    /\ IsNormal =>
         LET n == <<t[2], t[3], t[4]>> IN
         PrintT(<<"CASE", ToJson([op |-> "ext/clip/normal", n |-> n,
                  face |-> IntersectsFaceDef(n), opp |-> OppositeEdgesDef(n),
                  axes |-> [k \in 1..8 |-> AxesOf(Signed(n, k - 1))],
                  se |-> [k \in 1..8 |-> LET s == Signed(n, k - 1) IN SumEqualDef(s[1], s[2], s[3])]])>>)
=============================================================================
