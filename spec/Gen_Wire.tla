------------------------------ MODULE Gen_Wire ------------------------------
(***************************************************************************)
(* C09: model values of every encodable type, their expected field/byte    *)
(* sequences (both polygon formats and the encoder's choice), and the      *)
(* model theorem Decode(Encode(v)) = v on every generated value, including *)
(* the derivative coder on words narrower than its values need (wrap).     *)
(***************************************************************************)
EXTENDS Wire, Json, SequencesExt

CONSTANT Kinds      \* which families to generate: subset of {"single","multi","long","simple","prim"}
CONSTANT VA         \* vertex codes: alphabet of single-loop polygons
CONSTANT VB         \* vertex codes: alphabet of multi-loop polygons
CONSTANT LMax       \* single loops have 1..LMax vertices
CONSTANT NL         \* multi-loop polygons have 2..NL loops of 1..2 vertices
CONSTANT LongSpec   \* long loops n*1000000 + a*1000 + b: vertex i is VASeq[((a*i + b*i*i) % |VA|) + 1]
CONSTANT WP         \* word width of the coder sequences generated for the primitive binding
CONSTANT CSizes     \* piece lengths of the transports ("transport" family): a reader delivers pieces of these lengths

VASeq == SetToSortSeq(VA, <)
VBSeq == SetToSortSeq(VB, <)

RECURSIVE SeqsUpTo(_, _)
SeqsUpTo(S, n) == IF n = 0 THEN {<<>>} ELSE LET r == SeqsUpTo(S, n - 1)
                                             IN  r \cup {Append(s, x) : s \in {y \in r : Len(y) = n - 1}, x \in S}
NonEmptySeqs(S, n) == SeqsUpTo(S, n) \ {<<>>}

\* deterministic variety for the flags (they only feed the props / depth fields)
FlagOI(cs) == (Len(cs) + cs[1]) % 2 = 0
FlagD(cs) == (cs[1] \div 2 + Len(cs)) % 3
LoopOf(cs) == MkLoop([i \in 1..Len(cs) |-> VOf(cs[i])], FlagOI(cs), FlagD(cs))

LongLoop(spec) ==
    LET n == spec \div 1000000  a == (spec \div 1000) % 1000  b == spec % 1000
    IN  [i \in 1..n |-> VASeq[((a * i + b * i * i) % Len(VASeq)) + 1]]

SmallCells == {[f |-> f, p |-> p] : f \in 0..5, p \in SeqsUpTo(0..3, 2)}
DeepCell(f, a, b) == [f |-> f, p |-> [i \in 1..30 |-> (a * i + b * (i \div 3)) % 4]]
Cells == SmallCells \cup {DeepCell(f, a, b) : f \in {0, 5}, a \in {1, 3}, b \in {0, 1, 2}}
         \cup {[f |-> f, p |-> [i \in 1..n |-> 3]] : f \in {2, 5}, n \in {7, 29, 30}}

VARIABLE t
Init == t \in {<<k>> : k \in Kinds}
Next ==
    /\ Len(t) = 1
    /\ \/ t[1] = "single" /\ t' \in {<<"polygon", <<LoopOf(cs)>>>> : cs \in NonEmptySeqs(VA, LMax)}
       \/ t[1] = "multi" /\ t' \in {<<"polygon", [i \in 1..Len(ls) |-> LoopOf(ls[i])]>> :
                                        ls \in {x \in SeqsUpTo(NonEmptySeqs(VB, 2), NL) : Len(x) >= 2}}
       \/ t[1] = "multi" /\ t' = <<"polygon", <<>>>>
       \/ t[1] = "long" /\ t' \in {<<"polygon", <<LoopOf(LongLoop(s))>>>> : s \in LongSpec}
       \/ t[1] = "long" /\ t' \in {<<"polygon", <<LoopOf(LongLoop(s)), LoopOf(<<VASeq[1], VASeq[2], VASeq[3]>>)>>>> : s \in LongSpec}
       \* around the threshold of the size estimate 4n + 26u < 24n (equality at n = 13k, u = 10k):
       \* ns copies of a snapped vertex followed by nu copies of a vertex that is no cell centre
       \/ t[1] = "thresh" /\ t' \in {<<"polygon", <<LoopOf([i \in 1..(nsu[1] + nsu[2]) |-> IF i <= nsu[1] THEN a ELSE b])>>>> :
                                        a \in {x \in VB : VLevel(VOf(x)) >= 0}, b \in {x \in VA : VLevel(VOf(x)) = -1},
                                        nsu \in {<<3, 10>>, <<4, 9>>, <<2, 11>>, <<1, 3>>, <<1, 4>>, <<2, 7>>, <<3, 9>>, <<6, 20>>, <<5, 21>>}}
       \/ t[1] = "simple" /\ t' \in {<<"cell", c>> : c \in Cells}
       \/ t[1] = "simple" /\ t' \in {<<"cellunion", cs>> : cs \in SeqsUpTo({c \in SmallCells : c.f < 2 /\ Len(c.p) = 1}, 2)}
       \/ t[1] = "simple" /\ t' \in {<<"cellunion", <<DeepCell(3, 1, 2), [f |-> 5, p |-> <<>>], DeepCell(0, 3, 0)>>>>}
       \/ t[1] = "simple" /\ t' \in {<<"polyline", n>> : n \in {0, 1, 2, 5}}
       \/ t[1] = "simple" /\ t' \in {<<"loop", LoopOf(cs)>> : cs \in NonEmptySeqs(VB, 3)}
       \/ t[1] = "simple" /\ t' \in {<<"point", 0>>, <<"cap", 0>>, <<"rect", 0>>}
       \* transports: how the byte stream reaches the decoder.  mode "plain": an io.Reader without ReadByte
       \* (Decode puts its own buffer in front); "byte": the decoder reads the pieces directly
       \/ t[1] = "transport" /\ t' \in {<<"transport", [mode |-> m, pat |-> pt]>> :
                                            m \in {"plain", "byte"}, pt \in NonEmptySeqs(CSizes, 2)}
       \* receivers: the class of the value a receiver holds before the value under test is decoded into it
       \/ t[1] = "transport" /\ t' \in {<<"receiver", c>> : c \in {"empty", "full", "small", "lossless", "large", "many", "holes", "other"}}
       \/ t[1] = "prim" /\ t' \in {<<"coder", xs>> : xs \in NonEmptySeqs(0..(2 ^ WP - 1), 4)}
       \/ t[1] = "prim" /\ t' \in {<<"zigzag", w>> : w \in {WP, W}}
       \/ t[1] = "prim" /\ t' \in {<<"interleave", x>> : x \in 0..(2 ^ W - 1)}
       \/ t[1] = "prim" /\ t' \in {<<"uvarint", n>> : n \in {0, 1, 127, 128, 129, 255, 256, 16383, 16384, 2097151, 2097152,
                                                             268435455, 268435456, 2147483647, 300, 10000000, 50000000}}

Full == Len(t) = 2
Kind == t[1]
Val == t[2]

\* ---- model theorems ---------------------------------------------------------
ThPolygon ==
    Full /\ Kind = "polygon" =>
        /\ ChoiceSound(Val)
        /\ PolygonLosslessLossless(Val)
        /\ PolygonCompressedLossless(Val, Choice(Val).snap % (K + 1), W)
        \* the coder stays lossless on words too narrow for the second differences (wrap-around)
        /\ PolygonCompressedLossless(Val, Choice(Val).snap % (K + 1), K)
        /\ \A L \in 0..K : PolygonCompressedLossless(Val, L, W)
ThCoder ==
    Full /\ Kind = "coder" => CoderLossless(Val, WP) /\ CoderLossless(Val, WP + 1)
ThZigZag == Full /\ Kind = "zigzag" => ZigZagLossless(Val)
ThInterleave == Full /\ Kind = "interleave" =>
                    \A y \in {0, 1, Val, 2 ^ W - 1, (Val * 7 + 3) % (2 ^ W)} : InterleaveLossless(Val, y)
ThUvarint == Full /\ Kind = "uvarint" => UVLossless(Val)
ThCell == Full /\ Kind = "cell" => CellLossless(Val)
ThCellUnion == Full /\ Kind = "cellunion" =>
                    LET d == DecCellUnion(EncCellUnion(Val)) IN d.ok /\ d.v = Val
ThLoop == Full /\ Kind = "loop" =>
                    LET d == DecLoop(EncLoop(Val, 0), 1, 0)
                    IN  d.ok /\ d.v = LoopExpect(Val, -1, 0) /\ d.next = Len(EncLoop(Val, 0)) + 1

\* Decode is independent of the chunking: on encodings of a lossless and a compressed model polygon
\* (and on the stream cut short in the middle of a field) the decoder's reads see the same bytes
TransportProbe == <<LoopOf(<<VASeq[1], VASeq[2], VASeq[3]>>), LoopOf(<<VASeq[2], VASeq[1]>>)>>
ThTransport ==
    Full /\ Kind = "transport" =>
        \A fs \in {EncPolygonLossless(TransportProbe), EncPolygonCompressed(TransportProbe, SnapLevel(AllVerts(TransportProbe)), W)} :
            LET szs == FieldSizes(fs)
                n == SumSeq(szs)
            IN  /\ ChunkingInvariant(StandIn(n), szs, Val.pat)
                /\ ChunkingInvariant(StandIn(n - 5), szs, Val.pat)

\* Decode does not depend on the receiver: model polygons of every class decoded over one another
ProbeFull == <<MkLoop(<<Vtx(5, M \div 2, M \div 2, TRUE)>>, TRUE, 0)>>
ProbeMany == [j \in 1..14 |-> LoopOf(<<VASeq[1], VASeq[2], VASeq[3]>>)]
ProbeOf(c) == CASE c = "empty" -> <<>> [] c = "full" -> ProbeFull [] c = "many" -> ProbeMany
                [] c = "holes" -> <<LoopOf(<<VASeq[1], VASeq[2], VASeq[3]>>), MkLoop(<<VOf(VASeq[2]), VOf(VASeq[1]), VOf(VASeq[3])>>, FALSE, 1)>>
                [] OTHER -> TransportProbe
ThReceiver ==
    Full /\ Kind = "receiver" =>
        \A target \in {<<>>, ProbeFull, ProbeMany, TransportProbe} :
            /\ ReceiverLaw(ProbeOf(Val), target)
            /\ DecodeInto(ZeroPoly, target).numEdges = (IF IsFullP(target) THEN 0 ELSE Len(AllVerts(target)))

\* ---- emission ---------------------------------------------------------------
Slim(fs) == [i \in 1..Len(fs) |-> [r |-> fs[i].r, b |-> fs[i].b, ref |-> fs[i].ref]]
VJson(v) == <<v.f, v.si, v.ti, IF v.ex THEN 1 ELSE 0, VLevel(v)>>
LJson(lp) == [vs |-> [i \in 1..Len(lp.vs) |-> VJson(lp.vs[i])], oi |-> lp.oi, d |-> lp.d]

Emit ==
    IF ~Full THEN TRUE
    ELSE CASE Kind = "polygon" ->
                LET c == Choice(Val)
                    sl == IF Len(AllVerts(Val)) = 0 THEN RealMaxLevel ELSE c.snap
                IN  PrintT(<<"CASE", ToJson([op |-> "wire", t |-> "Polygon", K |-> K,
                        loops |-> [i \in 1..Len(Val) |-> LJson(Val[i])],
                        fmt |-> c.fmt, snap |-> sl, holes |-> HasHoles(Val),
                        lossless |-> Slim(EncPolygonLossless(Val)),
                        compressed |-> Slim(EncPolygonCompressed(Val, sl, W))])>>)
           [] Kind = "loop" ->
                PrintT(<<"CASE", ToJson([op |-> "wire", t |-> "Loop", K |-> K, loops |-> <<LJson(Val)>>,
                        lossless |-> Slim(EncLoop(Val, 0))])>>)
           [] Kind = "cell" ->
                PrintT(<<"CASE", ToJson([op |-> "wire", t |-> "Cell", cells |-> <<Val>>, lossless |-> Slim(EncCellID(Val))])>>)
           [] Kind = "cellunion" ->
                PrintT(<<"CASE", ToJson([op |-> "wire", t |-> "CellUnion", cells |-> Val, lossless |-> Slim(EncCellUnion(Val))])>>)
           [] Kind = "polyline" ->
                PrintT(<<"CASE", ToJson([op |-> "wire", t |-> "Polyline", n |-> Val, lossless |-> Slim(EncPolyline(Val))])>>)
           [] Kind = "point" -> PrintT(<<"CASE", ToJson([op |-> "wire", t |-> "Point", lossless |-> Slim(EncPoint)])>>)
           [] Kind = "cap" -> PrintT(<<"CASE", ToJson([op |-> "wire", t |-> "Cap", lossless |-> Slim(EncCap)])>>)
           [] Kind = "rect" -> PrintT(<<"CASE", ToJson([op |-> "wire", t |-> "Rect", lossless |-> Slim(EncRect)])>>)
           [] Kind = "coder" ->
                PrintT(<<"CASE", ToJson([op |-> "wireprim", p |-> "coder", w |-> WP, xs |-> Val,
                        enc |-> EncSeq(CoderInit, Val, WP)])>>)
           [] Kind = "zigzag" ->
                PrintT(<<"CASE", ToJson([op |-> "wireprim", p |-> "zigzag", w |-> Val,
                        xs |-> [i \in 1..(2 ^ Val) |-> Signed(i - 1, Val)],
                        enc |-> [i \in 1..(2 ^ Val) |-> ZigZag(Signed(i - 1, Val))]])>>)
           [] Kind = "interleave" ->
                LET ys == <<0, 1, Val, 2 ^ W - 1, (Val * 7 + 3) % (2 ^ W)>>
                IN  PrintT(<<"CASE", ToJson([op |-> "wireprim", p |-> "interleave", w |-> W, xs |-> <<Val>>, ys |-> ys,
                        enc |-> [i \in 1..Len(ys) |-> BitInterleave(Val, ys[i])]])>>)
           [] Kind = "uvarint" ->
                PrintT(<<"CASE", ToJson([op |-> "wireprim", p |-> "uvarint", w |-> 0, xs |-> <<Val>>, enc |-> UV(Val)])>>)
           [] Kind = "transport" -> PrintT(<<"TRANSPORT", ToJson(Val)>>)
           [] Kind = "receiver" -> PrintT(<<"RECEIVER", ToJson([class |-> Val])>>)
           [] OTHER -> TRUE
=============================================================================
