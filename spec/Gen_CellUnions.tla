--------------------------- MODULE Gen_CellUnions ---------------------------
(***************************************************************************)
(* C11 case generator.  A state is a tuple of NU multisets of cells (each  *)
(* a sequence of cell indices, non-decreasing when Ordered so that every   *)
(* multiset is one state).  Only the last multiset grows, so states and    *)
(* tuples correspond one to one.  Every state with NU multisets is a case; *)
(* the expected results are computed by CellUnions.tla.                    *)
(*                                                                         *)
(*   Init/Next/Emit       exhaustive enumeration (BFS), partitioned by the *)
(*                        first cell of the first multiset (First)         *)
(*   InitS/NextS          random walks (tlc -simulate), printed by Finish  *)
(*   InitR/NextR/EmitR    all leaf ranges [lo, hi)                         *)
(*   InitM/NextM          many unions (NU = 14..130) for s2intersect.Find: *)
(*                        every union is one small cell of its own (adds   *)
(*                        no overlap) and two regions r1, r2 are added to  *)
(*                        the unions whose indices are in s1, s2, chosen   *)
(*                        from IdxSets (the driver puts index sets there   *)
(*                        whose decimal renderings are easily confused:    *)
(*                        {1,2,13}/{12,13}, {1,23}/{1,2,3}, ... and sets   *)
(*                        with indices around 64 and 128)                  *)
(***************************************************************************)
EXTENDS CellUnions, Json

CONSTANT NU          \* number of unions in a case: 1 (single), 2 (pair), 3.. (tuple)
CONSTANT K           \* maximal number of cells per multiset
CONSTANT First       \* cell indices allowed as first cell of the first multiset
CONSTANT WithEmpty   \* also start from the empty first multiset
CONSTANT PoolA, PoolB, PoolC   \* cell indices allowed in multiset 1, 2, >= 3
CONSTANT Strict      \* TRUE: sets (strictly increasing indices) instead of multisets
CONSTANT PerCell     \* single mode: emit the per-cell results for every cell
CONSTANT SimLen      \* simulation: total number of cells in a case
CONSTANT IdxSets     \* many-union family: sets of 0-based union indices sharing a region
CONSTANT RegionPool  \* many-union family: cells used as shared regions (may nest)
CONSTANT Fillers     \* many-union family: pairwise disjoint cells (one per non-bare union), disjoint from the regions
CONSTANT Bare        \* many-union family: 0-based indices of unions without a filler cell

VARIABLE t

Pool(n) == IF n = 1 THEN PoolA ELSE IF n = 2 THEN PoolB ELSE PoolC

Init == t \in {<<<<i>>>> : i \in First \cap PoolA} \cup (IF WithEmpty THEN {<<<<>>>>} ELSE {})

Next ==
    LET n == Len(t)
        last == t[n]
    IN  \/ /\ Len(last) < K
           /\ ~(n = 1 /\ Len(last) = 0)      \* the empty first multiset is a case of its own
           /\ \E j \in Pool(n) :
                /\ (IF Len(last) = 0 THEN TRUE ELSE IF Strict THEN j > last[Len(last)] ELSE j >= last[Len(last)])
                /\ t' = [t EXCEPT ![n] = Append(last, j)]
        \/ /\ n < NU
           /\ t' = Append(t, <<>>)

Full == Len(t) = NU

\* ---- simulation ---------------------------------------------------------------
Total == LET RECURSIVE Sum(_) Sum(k) == IF k = 0 THEN 0 ELSE Len(t[k]) + Sum(k - 1) IN Sum(Len(t))
InitS == t = [k \in 1..NU |-> <<>>]

\* ---- the expected results --------------------------------------------------------
Bit(b) == IF b THEN 1 ELSE 0

\* a pseudo-random but deterministic choice of Denormalize parameters per case
CaseHash(seq) == LET RECURSIVE H(_) H(k) == IF k = 0 THEN 7 ELSE (H(k - 1) * 31 + seq[k] + 1) % 10007 IN H(Len(seq))

Single(a) ==
    LET S == LeafSet(a)
        norm == Canon(S)
        srt == SortedById(a)
        h == CaseHash(a)
        m == h % (L + 2)               \* min level relative to the root level: 0..L+1
        md == 1 + ((h \div 11) % 3)
        mdeep == (h \div 5) % (L + 2)  \* deep: real min level 30-L-1+mdeep
        base == [op |-> "cu1", L |-> L, NF |-> NF, in |-> a, norm |-> norm,
                 valid |-> IsValidSeq(srt), normalized |-> IsNormalizedSeq(srt),
                 leaves |-> Cardinality(S),
                 dmod |-> md, dmin |-> m, dtop |-> DenormLevels(norm, m, md, 0, 30),
                 ddmin |-> (30 - L - 1) + mdeep,
                 ddeep |-> DenormLevels(norm, (30 - L - 1) + mdeep, md, 30 - L, 30),
                 draw |-> DenormLevels(a, (30 - L - 1) + mdeep, md, 30 - L, 30)]
    IN  IF PerCell
        THEN base @@ [cc |-> {i \in CellIds : LeavesI[i] \subseteq S},
                      ic |-> {i \in CellIds : LeavesI[i] \cap S # {}},
                      xc |-> LET part == SetToSortSeq({i \in CellIds : LeavesI[i] \cap S # {} /\ ~(LeavesI[i] \subseteq S)}, <)
                             IN  [k \in 1..Len(part) |-> <<part[k]>> \o Canon(S \cap LeavesI[part[k]])]]
        ELSE base

Pair(a, b) ==
    LET SA == LeafSet(a)
        SB == LeafSet(b)
    IN  [op |-> "cu2", L |-> L, NF |-> NF, a |-> a, b |-> b,
         na |-> Canon(SA), nb |-> Canon(SB),
         un |-> Canon(SA \cup SB), it |-> Canon(SA \cap SB),
         dab |-> Canon(SA \ SB), dba |-> Canon(SB \ SA),
         cab |-> SB \subseteq SA, cba |-> SA \subseteq SB,
         x |-> SA \cap SB # {}, eq |-> SA = SB,
         find |-> Find(<<a, b>>)]

Tuple(us) == [op |-> "cufind", L |-> L, NF |-> NF, us |-> us, find |-> Find(us)]

CaseOf(us) == IF NU = 1 THEN Single(us[1]) ELSE IF NU = 2 THEN Pair(us[1], us[2]) ELSE Tuple(us)

Emit == IF Full THEN PrintT(<<"CASE", ToJson(CaseOf(t))>>) ELSE TRUE

NextS ==
    \/ /\ Total < SimLen
       /\ \E k \in 1..NU : \E j \in Pool(k) : t' = [t EXCEPT ![k] = Append(@, j)]
    \/ /\ Total = SimLen
       /\ PrintT(<<"CASE", ToJson(CaseOf(t))>>)
       /\ UNCHANGED t

\* ---- model-level theorems (INVARIANTs) ---------------------------------------------
NormalForm == Full => CanonLaws(LeafSet(t[1]))
\* what CellUnionFromIntersectionWithCellID does for contained / disjoint cells
InterCellLaws ==
    Full => \A i \in CellIds :
        /\ ContainsC(t[1], i) => InterCell(t[1], i) = <<i>>
        /\ ~IntersectsC(t[1], i) => InterCell(t[1], i) = <<>>
DenormTheorem == Full => \A m \in (30 - L - 1)..30, md \in 1..3 : DenormLaws(Normalize(t[1]), m, md)
\* lattice laws tying the pair results together
PairLaws ==
    (Full /\ NU = 2) =>
        LET a == t[1] b == t[2]
        IN  /\ LeafSet(UnionOf(a, b)) = LeafSet(InterOf(a, b)) \cup LeafSet(DiffOf(a, b)) \cup LeafSet(DiffOf(b, a))
            /\ (ContainsU(a, b) <=> DiffOf(b, a) = <<>>)
            /\ (IntersectsU(a, b) <=> InterOf(a, b) # <<>>)
            /\ (ContainsU(a, b) <=> InterOf(a, b) = Normalize(b))
            /\ (Normalize(a) = Normalize(b) <=> LeafSet(a) = LeafSet(b))
FindLaws ==
    Full => LET f == Find(t)
            IN  /\ \A n, m \in 1..Len(f) : n # m => LeafSet(f[n].cells) \cap LeafSet(f[m].cells) = {}
                /\ \A n \in 1..Len(f) : f[n].cells # <<>> /\ Len(f[n].idx) >= 2
                /\ \A x \in AllLeaves : Cardinality(Owners(t, x)) >= 2 =>
                       \E n \in 1..Len(f) : x \in LeafSet(f[n].cells) /\ Rng(f[n].idx) = {k - 1 : k \in Owners(t, x)}

\* ---- many unions -------------------------------------------------------------------------
FillerSeq == SetToSortSeq(Fillers, <)
\* the n-th union that is not bare gets the n-th filler cell (cached: a constant definition)
FillerOf == [k \in 1..NU |-> IF (k - 1) \in Bare THEN <<>>
                             ELSE <<FillerSeq[Cardinality({j \in 0..(k - 1) : j \notin Bare})]>>]
ManyUnions(s1, r1, s2, r2) ==
    [k \in 1..NU |-> FillerOf[k]
                     \o (IF (k - 1) \in s1 THEN <<r1>> ELSE <<>>)
                     \o (IF (k - 1) \in s2 THEN <<r2>> ELSE <<>>)]
InitM == t \in {<<"many", s1, r1>> : s1 \in IdxSets, r1 \in RegionPool}
NextM == /\ Len(t) = 3       \* a marker state (a built case has NU >= 14 unions)
         /\ t' \in {ManyUnions(t[2], t[3], s2, r2) : s2 \in IdxSets \ {t[2]}, r2 \in RegionPool \ {t[3]}}
\* the family is built as intended: fillers never overlap anything, so every overlap
\* comes from the two regions, and disjoint regions are owned by exactly s1 and s2
ManyTheorem ==
    Full => LET f == Find(t)
            IN  /\ Len(f) \in 1..3
                /\ \A n \in 1..Len(f) : LeafSet(f[n].cells) \cap LeafSetOf(Fillers) = {}

\* ---- ranges ----------------------------------------------------------------------------
InitR == t \in {<<lo>> : lo \in 0..NLeaves}
NextR == Len(t) = 1 /\ t' \in {<<t[1], hi>> : hi \in t[1]..NLeaves}
EmitR ==
    IF Len(t) = 2
    THEN PrintT(<<"CASE", ToJson([op |-> "curange", L |-> L, NF |-> NF, lo |-> t[1], hi |-> t[2],
                                  tiles |-> Tiling(t[1], t[2]),
                                  mt |-> IF t[2] < NLeaves \/ TRUE THEN [i \in 1..NC |-> MaxTile(i - 1, t[2])] ELSE <<>>])>>)
    ELSE TRUE
RangeTheorem == Len(t) = 2 => TilingLaws(t[1], t[2])
=============================================================================
