------------------------ MODULE IndexConcurrencyCore ------------------------
(***************************************************************************)
(* C14: concurrent read-only queries on a shared ShapeIndex (directly or   *)
(* inside a Loop / Polygon) whose pending updates are applied lazily by    *)
(* the first query.  One action per schedule point of                      *)
(* ShapeIndex.maybeApplyUpdates (the verifSched gates in s2/shapeindex.go):*)
(*                                                                         *)
(*   load    atomic load of the status word; branch on it                  *)
(*   lock    mu.Lock()                      (enabled only if mutex free)   *)
(*   locked  applyUpdatesInternal starts: clip the pending shapes' edges   *)
(*   faceA   updateFaceEdges for the first faces  (cell map half written)  *)
(*   faceB   ... for the remaining faces, pendingAdditionsPos updated      *)
(*   store   atomic store status = fresh                                   *)
(*   unlock  mu.Unlock()                                                   *)
(*   ret     return to the query, which now reads the cell map; afterwards  *)
(*           the query either finishes or calls maybeApplyUpdates again    *)
(*           (a query may create several iterators)                        *)
(*                                                                         *)
(* Checked by TLC over all interleavings: mutual exclusion; a query only   *)
(* ever reads a complete cell map that nobody is writing; pending updates  *)
(* are applied exactly once; no deadlock; every query terminates (under    *)
(* weak fairness).  The constants StoreEarly / NoLock describe two broken  *)
(* protocols, to show that the invariants are not vacuous.                 *)
(***************************************************************************)
(* This module holds the state, the actions and the safety properties; it   *)
(* uses only the standard modules so that the proof system can read it      *)
(* (IndexConcurrencyProof.tla).  IndexConcurrency.tla adds the Finish action *)
(* that prints schedules for replay, and the fairness condition.            *)
EXTENDS Integers, Sequences, FiniteSets

CONSTANTS NP,          \* number of goroutines
          MaxRounds,   \* maximal number of maybeApplyUpdates calls per query
          InitFresh,   \* TRUE: the index was built before the goroutines start
          StoreEarly,  \* broken variant: status published before the cell map is written
          NoLock,      \* broken variant: the mutex is not taken
          KeepHist     \* TRUE: keep the schedule as a history variable and print it at the end

Procs == 1..NP

VARIABLES status,    \* "stale" / "fresh"
          mutex,     \* 0 or the holder
          pending,   \* TRUE iff there are shapes not yet in the cell map
          complete,  \* TRUE iff the cell map contains every shape
          writer,    \* 0 or the process currently writing the cell map
          applies,   \* number of applications that wrote the cell map
          pc, round,
          badRead,   \* a query read an incomplete cell map or one being written
          h
vars == <<status, mutex, pending, complete, writer, applies, pc, round, badRead, h>>

Init ==
    /\ status = IF InitFresh THEN "fresh" ELSE "stale"
    /\ mutex = 0
    /\ pending = ~InitFresh /\ complete = InitFresh
    /\ writer = 0 /\ applies = 0
    /\ pc = [p \in Procs |-> "load"] /\ round = [p \in Procs |-> 1]
    /\ badRead = FALSE
    /\ h = <<>>

Log(p, l, nxt) == IF KeepHist THEN Append(h, [p |-> p, l |-> l, n |-> nxt]) ELSE h

Load(p) ==
    /\ pc[p] = "load"
    /\ LET nxt == IF status = "stale" THEN "lock" ELSE "ret"
       IN  pc' = [pc EXCEPT ![p] = nxt] /\ h' = Log(p, "load", nxt)
    /\ UNCHANGED <<status, mutex, pending, complete, writer, applies, round, badRead>>

Lock(p) ==
    /\ pc[p] = "lock"
    /\ NoLock \/ mutex = 0
    /\ mutex' = IF NoLock THEN mutex ELSE p
    /\ pc' = [pc EXCEPT ![p] = "locked"] /\ h' = Log(p, "lock", "locked")
    /\ UNCHANGED <<status, pending, complete, writer, applies, round, badRead>>

\* applyUpdatesInternal begins.  If there is pending work this process becomes the
\* writer of the cell map; otherwise the whole application is a no-op.
Locked(p) ==
    /\ pc[p] = "locked"
    /\ IF pending
       THEN writer' = p /\ applies' = applies + 1 /\ complete' = FALSE
       ELSE UNCHANGED <<writer, applies, complete>>
    /\ status' = IF StoreEarly THEN "fresh" ELSE status
    /\ pc' = [pc EXCEPT ![p] = "faceA"] /\ h' = Log(p, "locked", "faceA")
    /\ UNCHANGED <<mutex, pending, round, badRead>>

FaceA(p) ==
    /\ pc[p] = "faceA"
    /\ pc' = [pc EXCEPT ![p] = "faceB"] /\ h' = Log(p, "faceA", "faceB")
    /\ UNCHANGED <<status, mutex, pending, complete, writer, applies, round, badRead>>

FaceB(p) ==
    /\ pc[p] = "faceB"
    /\ IF writer = p
       THEN writer' = 0 /\ complete' = TRUE /\ pending' = FALSE
       ELSE UNCHANGED <<writer, complete, pending>>
    /\ pc' = [pc EXCEPT ![p] = "store"] /\ h' = Log(p, "faceB", "store")
    /\ UNCHANGED <<status, mutex, applies, round, badRead>>

Store(p) ==
    /\ pc[p] = "store"
    /\ status' = "fresh"
    /\ pc' = [pc EXCEPT ![p] = "unlock"] /\ h' = Log(p, "store", "unlock")
    /\ UNCHANGED <<mutex, pending, complete, writer, applies, round, badRead>>

Unlock(p) ==
    /\ pc[p] = "unlock"
    /\ mutex' = IF mutex = p THEN 0 ELSE mutex
    /\ pc' = [pc EXCEPT ![p] = "ret"] /\ h' = Log(p, "unlock", "ret")
    /\ UNCHANGED <<status, pending, complete, writer, applies, round, badRead>>

\* return to the query: it reads the cell map, then finishes or starts another round
Ret(p) ==
    /\ pc[p] = "ret"
    /\ badRead' = (badRead \/ ~complete \/ (writer # 0 /\ writer # p))
    /\ \E more \in BOOLEAN :
          /\ more => round[p] < MaxRounds
          /\ pc' = [pc EXCEPT ![p] = IF more THEN "load" ELSE "done"]
          /\ round' = [round EXCEPT ![p] = IF more THEN round[p] + 1 ELSE round[p]]
          /\ h' = Log(p, "ret", IF more THEN "load" ELSE "done")
    /\ UNCHANGED <<status, mutex, pending, complete, writer, applies>>

Step(p) == Load(p) \/ Lock(p) \/ Locked(p) \/ FaceA(p) \/ FaceB(p) \/ Store(p) \/ Unlock(p) \/ Ret(p)

AllDone == \A p \in Procs : pc[p] = "done"

CoreNext == \E p \in Procs : Step(p)

\* ---- safety ------------------------------------------------------------------
InCS(p) == pc[p] \in {"locked", "faceA", "faceB", "store", "unlock"}
MutualExclusion == \A p, q \in Procs : (p # q /\ InCS(p)) => ~InCS(q)
HolderInCS == \A p \in Procs : InCS(p) => mutex = p
ReadsAreSafe == ~badRead
AppliedAtMostOnce == applies <= 1
FreshMeansComplete == status = "fresh" => complete
NoDeadlock == AllDone \/ \E p \in Procs : ENABLED Step(p)
=============================================================================
